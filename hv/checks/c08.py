"""
C08 -- a failed elaboration or generator call does not poison later ones.

Fault injection + offline trace specification over a boundary log.  Every scenario appends events
{seq, api, design, outcome, signature | package digest} to a log; `check_trace` then enforces:

    fail(F, offending set O)   and afterwards, for every later call on a design D:
      D disjoint from O             =>  result == fresh(D)
      D contains O, unedited        =>  raises with the SAME signature as F  (type + message without the path prefix)
      D contains O, repaired        =>  result == fresh(repaired D)  or raises
      generator whose body raised   =>  the body is simply run again

Fault sources: (i) a Bomb pass inserted at every position of the default pass list through the public Elaborator /
set_elaborator, firing on every module of the design; (ii) real design faults caught by each checking / rewriting pass;
(iii) generator bodies raising on their first call; (iv, thorough) source-free failpoints (sys.monitoring LINE events)
at every statement of the rewriting passes -- the asynchronous-exception model (Ctrl-C in a notebook).
"""



import copy
import hashlib
import io
import itertools
import sys

from .. import build, oracle, refsem, spec
from ..monitors import passmon
from ..runner import jhash
from .c07 import canon, Session

LEVEL = "fault_enumeration"
RULE = ("scenarios = (design) x (fault source: Bomb pass at each of the 11 positions of the default pass list x each module of the "
        "design; real design fault of 9 kinds planted in a sub-module or the top; generator body raising on its first call; "
        "[thorough] a failpoint at every statement line of the rewriting passes) x (continuation: retry unchanged, repair and "
        "retry, elaborate an unrelated design, elaborate a new parent sharing the non-offending sub-modules, export the "
        "offending module alone); distinct = (fault source, position/kind, module, continuation); non-trivial = the first "
        "call really failed")
ASSUMPTIONS = [
    "error signature = exception type + message with the hierarchy-path / file:line prefix of ElabPass.fail stripped",
    "fresh(D) is computed by a fresh build (same names) inside the same process; a sample is cross-checked in a fresh process by C07",
    "after a repair, raising is acceptable; returning anything but fresh(repaired design) is not",
]
REQUIRED_COUNTERS = ["trace.fail-events", "trace.retry-checked", "trace.unrelated-checked", "trace.sharing-checked", "trace.repair-checked",
                     "generator.retry-checked"]
MIN_EVALS = 120
MIN_NONTRIVIAL = 100

_uid = itertools.count()


class Injected(Exception):
    """Raised by bombs and failpoints (user code raising inside elaboration)."""


class InjectedAbort(BaseException):
    """A non-`Exception` interruption of user code (the Ctrl-C / SystemExit family)."""


def digest(pkg) -> str:
    return hashlib.sha256(canon(pkg)).hexdigest()[:16]


def sig_of(e: BaseException) -> str:
    return oracle.exc_sig(e)


# ------------------------------------------------------------------------------------------------
# designs: a top with two mid modules sharing leaves; one sub-module is the "offender"


def base_design(variant: int):
    B = copy.deepcopy(spec.BUNDLES)
    S = lambda n: ["sig", n]
    leaf = {"name": "Lf", "style": "proc", "ports": [["a", 2, "in"], ["b", 1, "out"]], "bports": [["bp", "B1", False, None]], "sigs": [], "buns": [],
            "insts": [{"name": "e", "kind": "single", "of": ["leaf", "E2"], "tag": 1, "conns": {"x": S("a"), "y": S("b")}},
                      {"name": "f", "kind": "single", "of": ["leaf", "E2"], "tag": 2, "conns": {"x": ["bref", "bp", ["y"]], "y": ["bref", "bp", ["x"]]}}]}
    good = {"name": "Good", "style": "proc", "ports": [["k", 1, "none"]], "bports": [], "sigs": [["w", 2]], "buns": [["g", "B1"]],
            "insts": [{"name": "l0", "kind": "single", "of": ["mod", "Lf"], "tag": None, "conns": {"a": S("w"), "b": S("k"), "bp": ["bun", "g"]}},
                      {"name": "r", "kind": "single", "of": ["leaf", "R"], "tag": 3, "conns": {"p": S("k"), "n": ["slice", S("w"), 0]}}]}
    # the module in which faults are planted: exercises pairs, port refs, bundles, arrays and slices so that every
    # rewriting pass has work to do in it
    mid = {"name": "Mid", "style": "proc", "ports": [["k", 1, "none"]], "bports": [], "sigs": [["w", 2], ["w4", 4], ["s1", 1]],
           "buns": [["mb", "B1"], ["d0", "Diff"]],
           "insts": [{"name": "l0", "kind": "single", "of": ["mod", "Lf"], "tag": None, "conns": {"a": S("w"), "b": S("k"), "bp": ["bun", "mb"]}},
                     {"name": "l1", "kind": "single", "of": ["mod", "Lf"], "tag": None, "conns": {"a": ["pref", "l0", "a"], "b": S("s1"), "bp": ["anon", {"x": S("s1"), "y": S("w")}]}},
                     {"name": "arr", "kind": "array", "n": 2, "of": ["mod", "Lf"], "tag": None, "conns": {"a": S("w4"), "b": S("k"), "bp": ["bun", "mb"]}},
                     {"name": "pr", "kind": "pair", "of": ["leaf", "E1"], "tag": 4, "conns": {"a": ["bun", "d0"], "b": S("s1")}},
                     {"name": "x", "kind": "single", "of": ["leaf", "E2"], "tag": 5, "conns": {"x": ["cat", ["slice", S("w4"), 3], ["slice", S("w"), 1]], "y": ["bref", "d0", ["p"]]}},
                     {"name": "nc", "kind": "single", "of": ["leaf", "E1"], "tag": 6, "conns": {"a": ["nc", 1, None], "b": ["bref", "d0", ["n"]]}}]}
    top = {"name": "Top", "style": "proc", "ports": [], "bports": [], "sigs": [["k", 1], ["j", 1]], "buns": [],
           "insts": [{"name": "g0", "kind": "single", "of": ["mod", "Good"], "tag": None, "conns": {"k": S("k")}},
                     {"name": "m0", "kind": "single", "of": ["mod", "Mid"], "tag": None, "conns": {"k": S("j")}},
                     {"name": "o", "kind": "single", "of": ["leaf", "E1"], "tag": 7, "conns": {"a": S("k"), "b": S("j")}}]}
    if variant == 1:  # the offender is instantiated twice and deeper
        wrap = {"name": "Wrap", "style": "class", "ports": [["k", 1, "none"]], "bports": [], "sigs": [], "buns": [],
                "insts": [{"name": "i0", "kind": "single", "of": ["mod", "Mid"], "tag": None, "conns": {"k": S("k")}},
                          {"name": "i1", "kind": "single", "of": ["mod", "Mid"], "tag": None, "conns": {"k": S("k")}}]}
        top["insts"][1] = {"name": "m0", "kind": "single", "of": ["mod", "Wrap"], "tag": None, "conns": {"k": S("j")}}
        return {"bundles": B, "modules": [leaf, good, mid, wrap, top], "top": "Top"}
    return {"bundles": B, "modules": [leaf, good, mid, top], "top": "Top"}


def unrelated_design():
    return list(spec.structural_designs())[3][1]


def sharing_design(design):
    """A new parent that instantiates the NON-offending sub-modules of `design` (Good and Lf)."""
    d = copy.deepcopy(design)
    d["modules"] = [m for m in d["modules"] if m["name"] in ("Lf", "Good")]
    d["modules"].append({"name": "Share", "style": "proc", "ports": [], "bports": [], "sigs": [["k", 1], ["w", 2]], "buns": [["b", "B1"]],
                         "insts": [{"name": "g", "kind": "single", "of": ["mod", "Good"], "tag": None, "conns": {"k": ["sig", "k"]}},
                                   {"name": "l", "kind": "single", "of": ["mod", "Lf"], "tag": None, "conns": {"a": ["sig", "w"], "b": ["sig", "k"], "bp": ["bun", "b"]}},
                                   {"name": "l2", "kind": "single", "of": ["mod", "Lf"], "tag": None, "conns": {"a": ["pref", "l", "a"], "b": ["nc", 1, None], "bp": ["pref", "l", "bp"]}},
                                   {"name": "l3", "kind": "single", "of": ["mod", "Lf"], "tag": None, "conns": {"a": ["sig", "w"], "b": ["nc", 2, None], "bp": ["nc", 3, None]}}]})
    d["top"] = "Share"
    return d


# real design faults: (name, function mutating the spec of module Mid/Top, repair function on live objects)
def real_faults():
    def conn(mname, iname, port, e):
        def f(d):
            for i in refsem.get_module(d, mname)["insts"]:
                if i["name"] == iname:
                    if e is None:
                        i["conns"].pop(port, None)
                    else:
                        i["conns"][port] = e
        return f

    return [
        ("orphan-signal", conn("Mid", "l0", "b", ["orphan", 1]), ("Mid", "l0", "b", ["sig", "k"])),
        ("pref-bad-port", conn("Mid", "l1", "a", ["pref", "l0", "nonexistent"]), ("Mid", "l1", "a", ["sig", "w"])),
        ("width-mismatch", conn("Mid", "l0", "a", ["sig", "w4"]), ("Mid", "l0", "a", ["sig", "w"])),
        ("missing-bundle-member", conn("Mid", "l1", "bp", ["anon", {"x": ["sig", "s1"]}]), ("Mid", "l1", "bp", ["bun", "mb"])),
        ("bad-array-width", conn("Mid", "arr", "a", ["cat", ["sig", "w"], ["sig", "s1"]]), None),
        ("anon-noconn-member", conn("Mid", "l1", "bp", ["anon", {"x": ["nc", 5, None], "y": ["sig", "w"]}]), ("Mid", "l1", "bp", ["bun", "mb"])),
        ("out-of-range-slice", conn("Mid", "x", "x", ["cat", ["slice", ["sig", "w4"], 7], ["slice", ["sig", "w"], 1]]), ("Mid", "x", "x", ["sig", "w"])),
        ("missing-connection", conn("Mid", "x", "y", None), ("Mid", "x", "y", ["sig", "s1"])),
        ("extra-connection", conn("Top", "g0", "zz", ["sig", "k"]), None),
        # found by the LAST pass only: by then every checking pass has finished with the modules above
        ("unnamed-module", (lambda d: d.__setitem__("unnamed_after_build", "Mid")), None),
    ]


# ------------------------------------------------------------------------------------------------
# the boundary log and its offline checker


class Log:
    def __init__(self):
        self.events = []

    def call(self, api, design_id, contains_offender, edited, f):
        ev = {"seq": len(self.events), "api": api, "design": design_id, "contains_offender": contains_offender, "edited": edited}
        try:
            r = f()
            ev["outcome"] = "returned"
            ev["digest"] = digest(r) if r is not None and hasattr(r, "SerializeToString") else None
            ev["result"] = r
        except BaseException as e:  # noqa
            if isinstance(e, (KeyboardInterrupt, SystemExit)):
                raise
            ev["outcome"] = "raised"
            ev["signature"] = sig_of(e)
        self.events.append(ev)
        return ev

    def public(self):
        return [{k: v for k, v in e.items() if k != "result"} for e in self.events]


def check_trace(rec, log: Log, fresh: dict, scenario: dict):
    """Offline checker of the trace specification.  fresh: {design_id: digest | ('raised', sig)}"""
    fail = None
    case = {"kind": "scenario", **scenario}
    for ev in log.events:
        if fail is None:
            if ev["outcome"] == "raised" and ev["api"] in ("first", "generator-first"):
                fail = ev
                rec.count("trace.fail-events")
            continue
        want = fresh.get(ev["design"])
        what = f"after a failed call ({fail['signature'][:90]}) [{scenario['source']} / {scenario.get('where')}]"
        if ev["api"] == "generator-retry":
            rec.count("generator.retry-checked")
            if ev["outcome"] == "raised" and ev["signature"] != fail["signature"]:
                rec.violation("generator-retry-spurious-error", f"{what}: calling the generator again raised {ev['signature'][:120]} instead of "
                                                                f"running the body again", case=case)
            elif ev["outcome"] == "returned" and scenario["source"] == "generator-naming":
                # nothing was changed: a fresh process refuses this call (its parameters cannot be named), so must the repeat
                r = ev.get("result")
                rec.violation("failed-call-repeat-succeeds", f"{what}: repeating the call, unchanged, returned {getattr(r, 'name', r)!r} instead of reporting the "
                                                             f"original error again", case=case)
            elif ev["outcome"] == "returned" and scenario.get("body_runs_expected") is not None and \
                    scenario["body_runs"][0] != scenario["body_runs_expected"]:
                rec.violation("generator-body-not-rerun", f"{what}: body ran {scenario['body_runs'][0]} time(s), expected {scenario['body_runs_expected']}", case=case)
            continue
        if not ev["contains_offender"]:
            key = "unrelated" if ev["api"] == "unrelated" else "sharing"
            rec.count(f"trace.{key}-checked")
            if ev["outcome"] == "raised":
                rec.violation(f"poisoned:{key}-design-fails", f"{what}: a design that does not contain the offending module raised "
                                                              f"{ev['signature'][:120]}", case=case, source=scenario["source"])
            elif ev["digest"] != want:
                rec.violation(f"poisoned:{key}-design-differs", f"{what}: a design that does not contain the offending module exports a "
                                                                f"package different from a fresh build", case=case, source=scenario["source"])
        elif not ev["edited"]:
            rec.count("trace.retry-checked")
            if ev["outcome"] == "returned" and ev.get("digest") is not None and want is not None and not isinstance(want, tuple) and ev["digest"] == want:
                # the fault was transient (bomb removed / failpoint disarmed) and the retry produced exactly the fresh result
                rec.count("trace.retry-returned-fresh")
            elif ev["outcome"] == "returned":
                rec.violation(f"retry-returns:{ev['api']}", f"{what}: repeating the call ({ev['api']}) on the unchanged design RETURNED "
                                                            f"{'a package' if ev['digest'] else 'normally'} (a half-rewritten / faulty module was "
                                                            f"exported)", case=case, source=scenario["source"], where=scenario.get("where"))
            elif ev["signature"] != fail["signature"]:
                rec.violation(f"retry-different-error:{ev['api']}",
                              f"{what}: repeating the call reports a different error: {ev['signature'][:140]}", case=case,
                              source=scenario["source"], where=scenario.get("where"))
        else:
            rec.count("trace.repair-checked")
            if ev["outcome"] == "returned" and ev["digest"] != want:
                rec.violation("repair-retry-wrong-package", f"{what}: after repairing the design the retry returned a package different from a "
                                                            f"fresh build of the repaired design", case=case, source=scenario["source"],
                              where=scenario.get("where"))
            elif ev["outcome"] == "raised":
                rec.count("trace.repair-raised")
    if fail is None:
        rec.count("scenario.first-call-did-not-fail")


# ------------------------------------------------------------------------------------------------
# scenarios


def fresh_digest(design, uid, repaired=None):
    import hdl21 as h

    s = Session(design, uid)
    s.ensure([m["name"] for m in design["modules"]])
    try:
        return digest(h.to_proto(s.built.modules[design["top"]]))
    except Exception as e:
        return ("raised", sig_of(e))


def continuations(rec, log, sess, design, uid, scenario, repair=None, repaired_design=None, apis=("retry-to_proto", "retry-elaborate"),
                  unrelated=None):
    import hdl21 as h

    top = sess.built.modules[design["top"]]
    fresh = {}
    offenders = scenario.pop("_offenders", [])
    off_names = [k for k, v in sess.built.modules.items() if any(v is o for o in offenders)]
    scenario["offending_modules"] = off_names
    rec.hist("offending_sets", ",".join(sorted(off_names)))
    if scenario["source"] in ("bomb-pass", "failpoint"):
        fresh["D"] = fresh_digest(design, uid)  # the fault was transient: the design itself is fine
        fresh["O"] = None
    # retry unchanged (two different entry points)
    if "retry-to_proto" in apis:
        log.call("retry-to_proto", "D", True, False, lambda: h.to_proto(top))
    if "retry-elaborate" in apis:
        log.call("retry-elaborate", "D", True, False, lambda: h.elaborate(top) and None)
    # exporting the offending module on its own
    if scenario["source"] != "bomb-pass":
        for name in off_names:
            if name != design["top"]:
                log.call("retry-offender-alone", "D", True, False, lambda name=name: h.to_proto(sess.built.modules[name]))
    # an unrelated design
    if unrelated is not None:  # the very objects that sat next to the faulty design in the failed list call
        U, uu, su = unrelated
        fresh["U"] = fresh_digest(U, uu)
    else:
        U = unrelated_design()
        uu = f"_u{next(_uid)}"
        fresh["U"] = fresh_digest(U, uu)
        su = Session(U, uu)
        su.ensure([m["name"] for m in U["modules"]])
    log.call("unrelated", "U", False, False, lambda: h.to_proto(su.built.modules[U["top"]]))
    # a new parent sharing the non-offending sub-modules (the SAME objects Good and Lf)
    SD = sharing_design(design)
    fresh["S"] = fresh_digest(SD, uid)
    if scenario["source"] == "design-fault" and any(n in off_names for n in ("Lf", "Good")):
        fresh["S"] = ("raised", "?")
    ss = Session(SD, uid)
    ss.built.modules.update({k: v for k, v in sess.built.modules.items() if k in ("Lf", "Good")})
    ss.built.bundles.update(sess.built.bundles)
    ss.done.update(("Lf", "Good"))
    ss.ensure(["Share"])
    # (if the offender is one of the shared sub-modules themselves, the new parent CONTAINS it: it must fail the same way)
    shares_offender = any(n in off_names for n in ("Lf", "Good"))
    log.call("sharing", "S", shares_offender, False, lambda: h.to_proto(ss.built.modules["Share"]))
    # repair and retry
    if repair is not None:
        try:
            repair()
            fresh["D"] = fresh_digest(repaired_design, uid)
            log.call("repair-retry", "D", True, True, lambda: h.to_proto(top))
        except Exception as e:
            rec.count("trace.repair-refused-at-edit")  # the library refuses the edit itself: an accepted outcome ("... or raises")
    check_trace(rec, log, fresh, scenario)


def bomb_scenario(rec, design, position, target, variant):
    import hdl21 as h
    from hdl21.elab import Elaborator, set_elaborator, reset_elaborator
    from hdl21.elab.passes.base import ElabPass

    uid = f"_b{next(_uid)}"
    sess = Session(design, uid)
    sess.ensure([m["name"] for m in design["modules"]])
    tname = sess.built.modules[target].name

    def elaborate_module(self, module):
        if module.name == tname:
            raise (InjectedAbort if variant == 1 else Injected)(f"user code raised while visiting {target}")
        return module

    Bomb = type("Bomb", (ElabPass,), {"elaborate_module": elaborate_module})
    default = list(Elaborator.default().passes)
    scenario = {"source": "bomb-pass", "where": f"position {position} ({default[position].__name__ if position < len(default) else 'end'}), module {target}",
                "offender": target, "design_variant": variant, "position": position}
    rec.case(key=jhash(scenario), nontrivial=True, sample=scenario if rec.evaluations % 60 == 1 else None)
    log = Log()
    top = sess.built.modules[design["top"]]
    set_elaborator(Elaborator(passes=default[:position] + [Bomb] + default[position:]))
    try:
        passmon.take_failed()
        log.call("first", "D", True, False, lambda: h.to_proto(top))
        scenario["_offenders"] = passmon.take_failed()
        # retry unchanged WITH the bomb still installed
        log.call("retry-to_proto", "D-bomb-installed", True, False, lambda: h.to_proto(top))
    finally:
        reset_elaborator()
    # the "repair" is to remove the bomb: the design itself is unchanged
    continuations(rec, log, sess, design, uid, scenario, repair=lambda: None, repaired_design=design, apis=("retry-to_proto",))


def real_fault_scenario(rec, design, fault, variant, repair_mode="edit-offender", listmode=None):
    import hdl21 as h

    name, plant, repair_spec = fault
    uid = f"_r{next(_uid)}"
    bad = copy.deepcopy(design)
    plant(bad)
    sess = Session(bad, uid)
    try:
        sess.ensure([m["name"] for m in bad["modules"]])
    except Exception:
        rec.count("scenario.fault-rejected-at-construction")
        return
    if bad.get("unnamed_after_build"):
        sess.built.modules[bad["unnamed_after_build"]].name = None
    scenario = {"source": "design-fault", "where": name, "offender": "Mid" if name != "extra-connection" else "Top", "design_variant": variant,
                "repair": repair_mode, "first_call": listmode or "single"}
    rec.case(key=jhash(scenario), nontrivial=True, sample=scenario if rec.evaluations % 60 == 1 else None)
    log = Log()
    top = sess.built.modules[bad["top"]]
    passmon.take_failed()
    unrelated = None
    if listmode:
        # the faulty design is exported in ONE list call together with an unrelated, valid design
        U = unrelated_design()
        uu = f"_lu{next(_uid)}"
        su = Session(U, uu)
        su.ensure([m["name"] for m in U["modules"]])
        utop = su.built.modules[U["top"]]
        unrelated = (U, uu, su)
        log.call("first", "D", True, False, lambda: h.to_proto([utop, top] if listmode == "good-first" else [top, utop]))
    else:
        log.call("first", "D", True, False, lambda: h.to_proto(top))
    scenario["_offenders"] = passmon.take_failed()
    repair = None
    repaired_design = None
    if repair_spec is not None:
        mname, iname, port, e = repair_spec
        repaired_design = copy.deepcopy(bad)
        for i in refsem.get_module(repaired_design, mname)["insts"]:
            if i["name"] == iname:
                i["conns"][port] = e

        def repair():
            inst = sess.built.objs[(mname, iname)]
            mb = build.ModBuilder(bad, refsem.get_module(bad, mname), sess.built)
            mb.attrs = {k[1]: v for k, v in sess.built.objs.items() if k[0] == mname}
            mb.insts = {k: v for k, v in mb.attrs.items() if hasattr(v, "conns")}
            inst.connect(port, mb.expr(e))

    if repair_mode == "repoint-ancestor":
        # the designer leaves the faulty module alone and re-points the top's instance at a corrected copy of it
        repaired_design = copy.deepcopy(design)
        refsem.get_module(repaired_design, "Mid")["name"] = "Mid2"
        repaired_design["modules"] = [m for m in repaired_design["modules"] if m["name"] != "Wrap"]
        for i in refsem.get_module(repaired_design, "Top")["insts"]:
            if i["name"] == "m0":
                i["of"] = ["mod", "Mid2"]

        def repair():
            mb = build.ModBuilder(repaired_design, refsem.get_module(repaired_design, "Mid2"), sess.built)
            mb.declare()
            mb.connect_all()
            mid2 = mb.finish()
            top.m0 = h.Instance(of=mid2)(k=top.j)

    if repair_mode in ("retarget-ancestor", "retarget-ancestor-extra-port"):
        # ... or keeps the top's instance and assigns its target (`inst.of = ...`, an ordinary attribute): to a corrected copy of the
        # faulty module, or to a copy that has one more port than the instance connects (the edited design is ill-formed then: a
        # fresh process refuses it)
        repaired_design = copy.deepcopy(design)
        refsem.get_module(repaired_design, "Mid")["name"] = "Mid2"
        repaired_design["modules"] = [m for m in repaired_design["modules"] if m["name"] != "Wrap"]
        for i in refsem.get_module(repaired_design, "Top")["insts"]:
            if i["name"] == "m0":
                i["of"] = ["mod", "Mid2"]
        if repair_mode.endswith("extra-port"):
            refsem.get_module(repaired_design, "Mid2")["ports"].append(["zzp", 1, "none"])

        def repair():
            mb = build.ModBuilder(repaired_design, refsem.get_module(repaired_design, "Mid2"), sess.built)
            mb.declare()
            mb.connect_all()
            mid2 = mb.finish()
            top.instances["m0"].of = mid2

    continuations(rec, log, sess, bad, uid, scenario, repair=repair, repaired_design=repaired_design, unrelated=unrelated)


def late_failure_retarget(rec):
    """A plain cell (no bundles, arrays or references: nothing the exporter would stumble over by itself) fails in the LAST pass
    (it has no name).  The designer then assigns the parent's instance another target (`inst.of = ...`, an ordinary attribute) whose
    interface does not fit the connections, and exports again: a fresh process refuses that design, so must this one."""
    import hdl21 as h

    for variant in ("wider-port", "extra-port", "narrower-port", "renamed-port"):
        for how in ("assign-of", "assign-of-then-elaborate"):
            n = next(_uid)
            rec.count("late-failure.scenarios")
            case = {"kind": "scenario", "source": "late-failure-retarget", "where": variant, "how": how}
            rec.case(key=jhash(case), nontrivial=True, sample=case if n % 10 == 0 else None)
            cell = h.Module()  # (no name)
            cell.add(h.Port(width=2), name="p")
            cell.add(h.Instance(of=h.R(r=1))(p=cell.p[0], n=cell.p[1]), name="r")
            top = h.Module(name=f"LateTop{n}")
            top.add(h.Signal(width=2), name="s")
            top.add(h.Instance(of=cell)(p=top.s), name="i")
            try:
                h.to_proto(top)
                rec.count("scenario.first-call-did-not-fail")
                continue
            except Exception as e:
                first = sig_of(e)
            new = h.Module(name=f"LateCell{n}")
            w = {"wider-port": 3, "narrower-port": 1}.get(variant, 2)
            new.add(h.Port(width=w), name="q" if variant == "renamed-port" else "p")
            if variant == "extra-port":
                new.add(h.Port(), name="extra")
            try:
                top.i.of = new
            except Exception:
                rec.count("trace.repair-refused-at-edit")
                continue
            try:
                if how.endswith("elaborate"):
                    h.elaborate(top)
                pkg = h.to_proto(top)
            except Exception:
                rec.count("trace.repair-raised")
                continue
            rec.violation("repair-retry-wrong-package", f"after a failed call ({first[:80]}) [late-failure-retarget / {variant}]: the instance was given a target whose "
                                                        f"ports do not fit its connections, and the export RETURNED a package (modules {[m.name for m in pkg.modules]}); a fresh "
                                                        f"process refuses this design", case=case, source="late-failure-retarget", where=variant)


def odd_failure_repeats(rec):
    """Ill-formed designs whose error arises in odd places of the traversal (a bundle instance, instance or instance bundle whose
    target is not what its kind requires - given at construction where that is accepted, else by attribute afterwards): the failed
    call repeated, and a new parent of the module, report the ORIGINAL error - not a different one a half-updated cache suggests."""
    import hdl21 as h

    E = h.ExternalModule(name="OddE", port_list=[h.Port(name="z")], paramtype=h.HasNoParams)

    def mk(kind, uid):
        m = h.Module(name=f"Odd{uid}")
        m.s = h.Signal()
        m.e = E()(z=m.s)
        if kind.startswith("bundle-of-"):
            what = {"bundle-of-instance": lambda: h.Diff(), "bundle-of-module": lambda: h.Module(name=f"OddInner{uid}"), "bundle-of-int": lambda: 5}[kind]()
            try:
                m.d = h.BundleInstance(of=what)
            except Exception:
                bi = h.Diff()
                bi.of = what  # (refused at construction: the attribute remains)
                m.d = bi
            m.r = h.R(r=1)(p=m.s, n=m.s)
        elif kind == "instance-of-int":
            i = E()(z=m.s)
            i.of = 5
            m.add(i, name="bad")
        elif kind == "pair-of-bundle-instance":
            pr = h.Pair(E())(z=h.AnonymousBundle(p=m.s, n=m.s))
            pr.bundle = h.Diff()
            m.add(pr, name="pr")
        elif kind == "array-n-string":
            a = h.InstanceArray(E(), 2)(z=m.s)
            a.n = "2"
            m.add(a, name="arr")
        return m

    for kind in ("bundle-of-instance", "bundle-of-module", "bundle-of-int", "instance-of-int", "pair-of-bundle-instance", "array-n-string"):
        for call in ("elaborate", "to_proto"):
            uid = next(_uid)
            rec.count("odd-failure.scenarios")
            case = {"kind": "scenario", "source": "odd-failure", "where": kind, "call": call}
            rec.case(key=jhash(case), nontrivial=True, sample=case)
            try:
                m = mk(kind, uid)
            except Exception:
                rec.count("odd-failure.refused-at-construction")
                continue
            f = h.elaborate if call == "elaborate" else h.to_proto
            try:
                f(m)
                rec.count("scenario.first-call-did-not-fail")
                continue
            except Exception as e:
                first = sig_of(e)
            for attempt in ("same-call", "other-call", "new-parent"):
                try:
                    if attempt == "same-call":
                        f(m)
                    elif attempt == "other-call":
                        (h.to_proto if call == "elaborate" else h.elaborate)(m)
                    else:
                        par = h.Module(name=f"OddPar{uid}")
                        par.add(h.Instance(of=m)(), name="u")
                        h.to_proto(par)
                    rec.violation("failed-call-repeat-succeeds", f"after a failed {call} ({first[:80]}) [odd-failure / {kind}]: {attempt} returned", case=case,
                                  source="odd-failure", where=kind)
                except Exception as e2:
                    rec.count("odd-failure.repeats-checked")
                    if sig_of(e2) != first:
                        rec.violation("retry-error-differs", f"after a failed {call} [odd-failure / {kind}] with `{first[:90]}`, {attempt} reports another error: "
                                                             f"`{sig_of(e2)[:110]}`", case=case, source="odd-failure", where=kind)


class _Opaque:
    """A hashable value that no JSON encoder knows: generator parameters holding it cannot be named."""


def generator_scenario(rec, mode):
    """A generator whose body raises on its first call(s)."""
    import hdl21 as h

    runs = [0]
    n = next(_uid)

    @h.paramclass
    class P:
        w = h.Param(dtype=int, desc="width", default=1)

    def body(params: P) -> h.Module:
        runs[0] += 1
        if runs[0] == 1:
            if mode.endswith("-abort"):
                raise InjectedAbort("generator body interrupted")
            raise Injected("generator body raised")
        m = h.Module()
        m.add(h.Port(width=params.w), name="a")
        m.add(h.Instance(of=build.leaf_call(refsem.wleaf(params.w), 3))(p=m.a), name="e")
        return m

    body.__name__ = f"FlakyGen{n}"
    G = h.generator(body)
    if mode == "unnameable":
        # the body succeeds, but the parameters cannot be turned into a module name (an Instance-valued field)
        from typing import Any

        @h.paramclass
        class Q:
            x = h.Param(dtype=Any, desc="anything", default=None)

        def okbody(params: Q) -> h.Module:
            return h.Module()

        okbody.__name__ = f"Unnameable{n}"
        GQ = h.generator(okbody)
        bad = h.Instance(of=h.R(r=1))
        scenario = {"source": "generator-naming", "where": mode, "body_runs": [0], "body_runs_expected": None}
        rec.case(key=jhash({"source": "generator-naming", "n": n % 3}), nontrivial=True, sample=None)
        log = Log()
        for bad in (h.Instance(of=h.R(r=1)), object(), _Opaque(), (1, _Opaque())):
            log = Log()
            log.call("generator-first", "G", True, False, lambda: GQ(x=bad) and None)
            log.call("generator-retry", "G", True, False, lambda: GQ(x=bad) and None)
            log.call("generator-retry", "G", True, False, lambda: GQ(Q(x=bad)) and None)
            if log.events[0]["outcome"] == "raised":
                rec.count("generator.naming-failures")
            check_trace(rec, log, {}, scenario)
        return
    scenario = {"source": "generator-body", "where": mode, "body_runs": runs, "body_runs_expected": 2}
    rec.case(key=jhash({"source": "generator-body", "where": mode, "n": n % 3}), nontrivial=True, sample={"source": "generator-body", "mode": mode} if n % 40 == 0 else None)
    log = Log()
    if mode.startswith("direct"):
        log.call("generator-first", "G", True, False, lambda: G(w=2) and None)
        log.call("generator-retry", "G", True, False, lambda: G(w=2) and None)
    elif mode == "nested-caught":
        # the outer generator catches the inner failure, falls back and completes: the inner call is over, not in flight
        def outer_c(params: P) -> h.Module:
            m = h.Module()
            try:
                inner = G(w=params.w)
                m.add(h.Signal(width=params.w), name="s")
                m.add(h.Instance(of=inner)(a=m.s), name="i")
            except Injected:
                m.add(h.Signal(width=params.w), name="fallback")
            return m

        outer_c.__name__ = f"OuterC{n}"
        OC = h.generator(outer_c)
        log.call("generator-first", "G", True, False, lambda: (OC(w=2), (_ for _ in ()).throw(Injected("generator body raised")))[0] and None)
        scenario["body_runs_expected"] = 2
        log.call("generator-retry", "G", True, False, lambda: G(w=2) and None)
    else:  # called from inside another generator
        def outer(params: P) -> h.Module:
            m = h.Module()
            inner = G(w=params.w)
            m.add(h.Signal(width=params.w), name="s")
            m.add(h.Instance(of=inner)(a=m.s), name="i")
            return m

        outer.__name__ = f"Outer{n}"
        O = h.generator(outer)
        log.call("generator-first", "G", True, False, lambda: O(w=2) and None)
        log.call("generator-retry", "G", True, False, lambda: O(w=2) and None)
    check_trace(rec, log, {}, scenario)
    # and afterwards an unrelated generator / design still works
    U = unrelated_design()
    uu = f"_gu{next(_uid)}"
    want = fresh_digest(U, uu + "f")
    got = fresh_digest(U, uu + "f")
    if want != got:
        rec.violation("poisoned:unrelated-design-differs", "after a generator failure an unrelated design exports differently", case={"kind": "scenario", **{k: v for k, v in scenario.items() if k != "body_runs"}})


# -- failpoints (thorough) ---------------------------------------------------------------------------------
TOOL = 3


def failpoint_lines():
    """[(code object, line)] -- every statement line of the rewriting passes' methods."""
    import importlib
    import dis

    out = []
    for modname, clsname in (("hdl21.elab.passes.inst_bundles", "InstBundleElabPass"), ("hdl21.elab.passes.portrefs", "ResolvePortRefs"),
                            ("hdl21.elab.passes.flatten_bundles", "BundleFlattener"), ("hdl21.elab.passes.arrays", "ArrayFlattener"),
                            ("hdl21.elab.passes.slices", "SliceResolver")):
        cls = getattr(importlib.import_module(modname), clsname)
        for name, fn in cls.__dict__.items():
            code = getattr(fn, "__code__", None)
            if code is None:
                continue
            lines = sorted({ln for _, ln in dis.findlinestarts(code) if ln and ln > code.co_firstlineno})
            for ln in lines:
                out.append((clsname, name, code, ln))
    return out


def failpoint_scenario(rec, design, fp, variant):
    import hdl21 as h

    clsname, fname, code, line = fp
    mon = sys.monitoring
    uid = f"_f{next(_uid)}"
    sess = Session(design, uid)
    sess.ensure([m["name"] for m in design["modules"]])
    top = sess.built.modules[design["top"]]
    fired = [False]

    def on_line(c, ln):
        if c is code and ln == line and not fired[0]:
            fired[0] = True
            raise (InjectedAbort if (line + variant) % 2 else Injected)(f"asynchronous exception at {clsname}.{fname}:{line}")
        return mon.DISABLE if c is not code else None

    scenario = {"source": "failpoint", "where": f"{clsname}.{fname}:{line}", "offender": "Mid", "design_variant": variant}
    log = Log()
    try:
        mon.use_tool_id(TOOL, "hv-failpoints")
    except ValueError:
        pass
    mon.register_callback(TOOL, mon.events.LINE, on_line)
    mon.set_local_events(TOOL, code, mon.events.LINE)
    passmon.take_failed()
    try:
        log.call("first", "D", True, False, lambda: h.to_proto(top))
    finally:
        scenario["_offenders"] = passmon.take_failed()
        mon.set_local_events(TOOL, code, 0)
        mon.register_callback(TOOL, mon.events.LINE, None)
        mon.free_tool_id(TOOL)
    if not fired[0]:
        rec.count("failpoint.not-reached")
        return
    rec.count("failpoint.fired")
    rec.case(key=jhash(scenario), nontrivial=True, sample=scenario if rec.evaluations % 80 == 1 else None)
    continuations(rec, log, sess, design, uid, scenario, repair=lambda: None, repaired_design=design, apis=("retry-to_proto",))


def run(ctx, rec):
    from hdl21.elab import Elaborator

    passmon.attach(rec)
    npos = len(Elaborator.default().passes) + 1
    work = []
    for variant in (0, 1):
        d = base_design(variant)
        targets = [m["name"] for m in d["modules"]]
        for pos in range(npos):
            for t in targets:
                work.append(("bomb", d, pos, t, variant))
        for fault in real_faults():
            work.append(("real", d, fault, variant, "edit-offender"))
            if fault[0] != "extra-connection":
                work.append(("real", d, fault, variant, "repoint-ancestor"))
                work.append(("real", d, fault, variant, "retarget-ancestor"))
                work.append(("real", d, fault, variant, "retarget-ancestor-extra-port"))
            work.append(("real", d, fault, variant, "edit-offender", "good-first" if variant == 0 else "bad-first"))
    for mode in ("direct", "nested", "nested-caught", "unnameable", "direct-abort", "nested-abort"):
        for _ in range(3):
            work.append(("gen", mode))
    fps = failpoint_lines()
    rec.extra["failpoint_lines"] = len(fps)
    if ctx.quick:
        rng = ctx.rng("c08")
        fps = rng.sample(fps, min(70, len(fps)))
    for variant in ((0,) if ctx.quick else (0, 1)):
        d = base_design(variant)
        for fp in fps:
            work.append(("fp", d, fp, variant))
    if ctx.nshards > 1:
        work = work[ctx.shard:: ctx.nshards]
    if ctx.shard == 0:
        late_failure_retarget(rec)
        odd_failure_repeats(rec)
    for w in work:
        if w[0] == "bomb":
            bomb_scenario(rec, w[1], w[2], w[3], w[4])
        elif w[0] == "real":
            real_fault_scenario(rec, w[1], w[2], w[3], w[4], w[5] if len(w) > 5 else None)
        elif w[0] == "gen":
            generator_scenario(rec, w[1])
        else:
            failpoint_scenario(rec, w[1], w[2], w[3])
    rec.exhaustive = True
    rec.extra["explanation_exhaustive"] = "all (pass position x module) bomb sites of the two base designs and all listed fault kinds are enumerated"


def shards(ctx):
    return 16


def replay(ctx, rec, case):
    passmon.attach(rec)
    run(ctx, rec)
