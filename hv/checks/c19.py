"""
C19 -- built-in generators build the documented topologies.

Oracle: the chain / pass-through described by the statement is written down as a reference DesignSpec (ends exposed,
unit k.second -- unit k+1.first on a private net, all other ports parallel) and its R1 meaning is compared with R2 of the
package exported for the real Series / MosStack / Wrapper module.
"""

from __future__ import annotations

import itertools
import json

from .. import build, oracle, pkgread, refsem
from ..runner import jhash

LEVEL = "exploration"
RULE = ("cases = Series(unit, conns=(a, b), nser=n) for n in 1..N, unit in {R, C, Vcvs, Mos, external modules with scalar and bus "
        "ports, a module with bus ports, a module with a bundle port}, (a, b) every ordered pair of distinct signal ports of equal "
        "width, given by name or by Signal; MosStack(nser=n) over Mos and over a d/g/s/b external module with permuted port "
        "order; Wrapper(unit) of each. distinct = (generator, unit, pair, form, n); non-trivial = n >= 2 or Wrapper")
ASSUMPTIONS = [
    "a series pair of unequal widths or naming a bundle port may be rejected at call time; equal-width bus pairs are in scope",
    "instance names of the generated modules are not part of the property: leaves are matched by tag up to a bijection",
]
REQUIRED_COUNTERS = ["oracle.compared"]
MIN_EVALS = 300
MIN_NONTRIVIAL = 200

# extra leaf cells for this check
refsem.LEAVES.setdefault("M4", {"kind": "ext", "ports": [("s", 1), ("g", 1), ("d", 1), ("b", 1)]})  # permuted MOS-like port order
refsem.LEAVES.setdefault("M5", {"kind": "ext", "ports": [("g", 1), ("d", 1), ("s", 1), ("b", 1), ("dnw", 1)]})
refsem.LEAVES.setdefault("BI", {"kind": "ext", "ports": [("a", 2), ("b", 2), ("i", 1), ("en", 3)]})  # has a port named `i`
# ports named like the attributes the generators create themselves
refsem.LEAVES.setdefault("NM", {"kind": "ext", "ports": [("i", 1), ("i_", 1), ("units", 1), ("inner", 1), ("o", 1)]})
# ... and like the names the elaborator gives the flattened array elements
refsem.LEAVES.setdefault("NM2", {"kind": "ext", "ports": [("a", 1), ("units_0", 1), ("units_1", 1), ("b", 1), ("units_2_", 1)]})


# two DIFFERENT external modules that share a name (the same device from two PDK domains), with different ports
refsem.LEAVES.setdefault("RHa", {"kind": "ext", "ports": [("p", 1), ("n", 1)], "extname": "res_hi", "domain": "pdk_a"})
refsem.LEAVES.setdefault("RHb", {"kind": "ext", "ports": [("p", 1), ("n", 1), ("sub", 2)], "extname": "res_hi", "domain": "pdk_b"})
refsem.LEAVES.setdefault("RHc", {"kind": "ext", "ports": [("n", 1), ("p", 1)], "extname": "res_hi", "domain": "pdk_c"})


# an external module with `dict` parameters (as every ASAP7 device, and everything from_proto produces)
refsem.LEAVES.setdefault("DP", {"kind": "ext", "ports": [("d", 1), ("g", 1), ("s", 1), ("b", 1)], "dictparams": True})


def unit_specs():
    """(label, unit target, list of modules the unit needs, scalar ports {name: width}, bundle ports {name: bundle})"""
    out = []
    for leaf in ("R", "C", "VCVS", "MOS", "E1", "E3", "M4", "M5", "BI", "NM", "NM2", "RHa", "RHb", "RHc", "DP"):
        out.append((leaf, ["leaf", leaf], [], dict(refsem.LEAVES[leaf]["ports"]), {}))
    # a module with bus ports
    um = {"name": "U", "style": "proc", "ports": [["x", 2, "in"], ["y", 2, "out"], ["k", 1, "inout"], ["v", 3, "none"]], "bports": [],
          "sigs": [["mid", 2]], "buns": [],
          "insts": [{"name": "e0", "kind": "single", "of": ["leaf", "E2"], "tag": 1, "conns": {"x": ["sig", "x"], "y": ["sig", "k"]}},
                    {"name": "e1", "kind": "single", "of": ["leaf", "E2"], "tag": 2, "conns": {"x": ["sig", "y"], "y": ["sig", "k"]}},
                    {"name": "e2", "kind": "single", "of": ["leaf", "E3"], "tag": 3, "conns": {"p": ["sig", "v"], "q": ["sig", "v"], "r": ["sig", "k"]}}]}
    out.append(("ModBus", ["mod", "U"], [um], {"x": 2, "y": 2, "k": 1, "v": 3}, {}))
    # a module with a bundle port (parallel only)
    ub = {"name": "UB", "style": "proc", "ports": [["a", 1, "none"], ["b", 1, "none"]], "bports": [["bp", "B1", False, None]],
          "sigs": [], "buns": [],
          "insts": [{"name": "e0", "kind": "single", "of": ["leaf", "E1"], "tag": 1, "conns": {"a": ["sig", "a"], "b": ["sig", "b"]}},
                    {"name": "e1", "kind": "single", "of": ["leaf", "E2"], "tag": 2, "conns": {"x": ["bref", "bp", ["y"]], "y": ["bref", "bp", ["x"]]}}]}
    out.append(("ModBundle", ["mod", "UB"], [ub], {"a": 1, "b": 1}, {"bp": "B1"}))
    # ... whose BUNDLE port is named like the attributes the generators create themselves (`Module.ports` does not list bundle ports:
    # a fresh-name search that looks there only would let the generator's own array / net / instance replace the copied port)
    for bname in ("units", "i", "inner"):
        ubn = json.loads(json.dumps(ub).replace('"bp"', json.dumps(bname)))
        ubn["name"] = "UB_" + bname
        out.append(("ModBundle:" + bname, ["mod", ubn["name"]], [ubn], {"a": 1, "b": 1}, {bname: "B1"}))
    return out


BUNDLES = {"B1": {"sigs": [["x", 1, "sig"], ["y", 2, "sig"]], "subs": [], "roles": None}}


def chain_spec(unit, mods, sp, bp, a, b, n, iname="units_"):
    """The reference: n units in series from port a to port b."""
    w = sp[a]
    ports = [[p, pw, "none"] for p, pw in sp.items()]
    sigs = [[f"zi{k}", w] for k in range(n - 1)]
    insts = []
    for k in range(n):
        conns = {}
        for p in sp:
            if p == a:
                conns[p] = ["sig", a] if k == 0 else ["sig", f"zi{k - 1}"]
            elif p == b:
                conns[p] = ["sig", b] if k == n - 1 else ["sig", f"zi{k}"]
            else:
                conns[p] = ["sig", p]
        for p in bp:
            conns[p] = ["bun", p]
        insts.append({"name": f"{iname}{k}", "kind": "single", "of": unit, "tag": 5, "conns": conns})
    S = {"name": "S", "style": "proc", "ports": ports, "bports": [[p, bn, False, None] for p, bn in bp.items()], "sigs": sigs, "buns": [], "insts": insts}
    return {"bundles": BUNDLES, "modules": list(mods) + [S], "top": "S"}


def wrapper_spec(unit, mods, sp, bp):
    ports = [[p, pw, "none"] for p, pw in sp.items()]
    conns = {p: ["sig", p] for p in sp}
    conns.update({p: ["bun", p] for p in bp})
    S = {"name": "S", "style": "proc", "ports": ports, "bports": [[p, bn, False, None] for p, bn in bp.items()], "sigs": [], "buns": [],
         "insts": [{"name": "inner" if "inner" not in sp and "inner" not in bp else "innerq", "kind": "single", "of": unit, "tag": 5, "conns": conns}]}
    return {"bundles": BUNDLES, "modules": list(mods) + [S], "top": "S"}


def real_unit(unit, mods, pre_elaborated=False):
    """The real instantiable for the unit (leaf call or built module).  pre_elaborated: the unit module has been through an
    elaboration of its own before the generator sees it (its bundle ports are flattened in place by then)."""
    if unit[0] == "leaf":
        return build.leaf_call(unit[1], 5)
    d = {"bundles": BUNDLES, "modules": list(mods), "top": mods[-1]["name"]}
    top = build.build(d).top
    if pre_elaborated == "below-failed-parent":
        # the unit was instantiated by ANOTHER design whose elaboration failed late (after bundles were flattened, in the array
        # pass): the unit has been flattened in place, but no elaboration of it ever completed
        import hdl21 as h

        P = h.Module(name=f"C19FailedParent{next(build._counter)}")
        conns = {}
        for name, port in top.ports.items():
            conns[name] = P.add(h.Signal(width=port.width), name=f"s_{name}")
        for name, port in top.bundle_ports.items():
            conns[name] = P.add(h.BundleInstance(of=port.of), name=f"b_{name}")
        P.add(h.Instance(of=top)(**conns), name="u")
        P.add(h.Signal(width=3), name="three")
        P.add(2 * h.R(r=1)(p=P.three, n=P.three), name="arr")
        try:
            h.elaborate(P)
            raise AssertionError("harness: the failing parent elaborated")
        except RuntimeError:
            pass
    elif pre_elaborated:
        import hdl21 as h

        h.elaborate(top)
    return top


def unit_port_order(sp, bp):
    """The exported port names of a module made from a unit with scalar ports `sp` and bundle ports `bp`: the scalar ports in their
    order, then each bundle port's leaves in the definition's order, joined by '_'."""
    out = list(sp)
    for name, bname in bp.items():
        out += [refsem.flatname(name, *path) for path, _ in refsem.bundle_leaves({"bundles": BUNDLES}, bname)]
    return out


def judge(rec, label, case, make_real, refdesign, must_accept=True, iname="units_"):
    import hdl21 as h

    rec.case(key=jhash(case), nontrivial=case.get("n", 2) >= 2 or case["gen"] == "Wrapper", sample=case if rec.evaluations % 150 == 3 else None)
    try:
        ref = refsem.flatten(refdesign)
    except refsem.Invalid as e:
        rec.count("generator.invalid-reference")
        rec.hist("invalid_reference", f"{label}: {e}"[:120])
        return
    try:
        m = make_real()
        pkg = h.to_proto(m)
    except Exception as e:
        rec.count("outcome.rejected")
        if must_accept:
            rec.violation(f"generator-rejects:{case['gen']}:{type(e).__name__}",
                          f"{label} raised {oracle.exc_sig(e)[:160]}", case=case, **{k: case.get(k) for k in ("unit", "bus", "bundle_port")})
        return
    try:
        obs = pkgread.flatten(pkg)
    except pkgread.ReadError as e:
        rec.violation(f"generator-package-unreadable:{case['gen']}", f"{label}: {e}", case=case)
        return
    rec.count("oracle.compared")
    # the generated module lists the unit's ports in the unit's order, whatever the unit has been through before
    if case.get("unit_elaborated_before") and case.get("unit_ports_in_order"):
        want = list(case["unit_ports_in_order"])
        top = [mm for mm in pkg.modules if mm.name.endswith(m.name)][-1]
        got = [p_.signal for p_ in top.ports]
        rec.count("ports.order-checked")
        if got != want:
            rec.violation(f"port-order-wrong:{case['gen']}", f"{label}: the generated module lists its ports as {got}; the unit's (flattened) ports are {want}",
                          case=case, **{k: case.get(k) for k in ("unit", "bus", "bundle_port")})
    diffs = pkgread.compare(ref, obs)
    if diffs:
        # tolerate another naming scheme for the units, but keep their INDEX (the statement speaks of unit 0 .. n-1):
        # rename the observed top-level instances to units_<trailing integer>; without parsable indices fall back to a
        # search for any bijection.
        import re

        ren = {}
        for p in obs.leaves:
            mt = re.match(r"^.*?(\d+)_*$", p[0])
            if mt:
                ren[p[0]] = f"{iname}{int(mt.group(1))}"
        if ren and len(set(ren.values())) == len(ren) and case["gen"] != "Wrapper":
            o2 = refsem.Flat()
            o2.ports = obs.ports
            o2.leaves = {(ren.get(p[0], p[0]),) + p[1:]: v for p, v in obs.leaves.items()}
            o2.nets = frozenset(frozenset(("L", (ren.get(t[1][0], t[1][0]),) + t[1][1:], t[2], t[3]) if t[0] == "L" else t for t in net) for net in obs.nets)
            diffs = pkgread.compare(ref, o2)
        else:
            d2 = pkgread.compare_renamed(ref, obs, cap=6000)
            if d2 is not None:
                diffs = d2
    if diffs:
        rec.violation(f"topology-wrong:{case['gen']}", f"{label}: exported topology differs from the documented one: " + "; ".join(diffs[:3]),
                      case=case, **{k: case.get(k) for k in ("unit", "bus", "bundle_port")})


def run(ctx, rec):
    import hdl21 as h
    from hdl21.generators import Series, MosStack, Wrapper

    N = 4 if ctx.quick else 12
    for (ulabel, unit, mods, sp, bp) in unit_specs():
        pairs = [(a, b) for a, b in itertools.permutations(list(sp), 2) if sp[a] == sp[b]]
        for (a, b) in pairs:
            for n in range(1, N + 1):
                for form in ("name", "signal"):
                    if form == "signal" and n not in (2, 3):
                        continue
                    case = {"gen": "Series", "unit": ulabel, "a": a, "b": b, "n": n, "form": form, "bus": sp[a] > 1, "bundle_port": bool(bp)}
                    iname = "unitq_" if any(p.startswith("units_") for p in sp) else "units_"  # (reference instance names must be free)
                    ref = chain_spec(unit, mods, sp, bp, a, b, n, iname) if n > 1 else wrapper_spec(unit, mods, sp, bp)

                    pre = unit[0] == "mod" and [False, True, "below-failed-parent"][(n + len(a)) % 3]
                    case["unit_elaborated_before"] = pre
                    case["unit_ports_in_order"] = unit_port_order(sp, bp)

                    def make(unit=unit, mods=mods, a=a, b=b, n=n, form=form, pre=pre):
                        u = real_unit(unit, mods, pre_elaborated=pre)
                        conns = (a, b) if form == "name" else (u.ports[a], u.ports[b])
                        return Series(unit=u, conns=conns, nser=n)

                    judge(rec, f"Series({ulabel}, conns=({a},{b}) by {form}, nser={n})", case, make, ref, iname=iname)
        # Wrapper
        case = {"gen": "Wrapper", "unit": ulabel, "bundle_port": bool(bp)}

        for pre in ((False, True, "below-failed-parent") if unit[0] == "mod" else (False,)):
            case = {"gen": "Wrapper", "unit": ulabel, "bundle_port": bool(bp), "unit_elaborated_before": pre, "unit_ports_in_order": unit_port_order(sp, bp)}

            def makew(unit=unit, mods=mods, pre=pre):
                w = Wrapper(real_unit(unit, mods, pre_elaborated=pre))
                w.name = f"{w.name}_{next(build._counter)}"
                return w

            judge(rec, f"Wrapper({ulabel}{', unit elaborated before: ' + str(pre) if pre else ''})", case, makew, wrapper_spec(unit, mods, sp, bp))
    # MosStack over drain / source
    for ulabel in ("MOS", "M4", "M5"):
        sp = dict(refsem.LEAVES[ulabel]["ports"])
        for n in range(1, N + 1):
            case = {"gen": "MosStack", "unit": ulabel, "n": n}
            ref = chain_spec(["leaf", ulabel], [], sp, {}, "d", "s", n) if n > 1 else wrapper_spec(["leaf", ulabel], [], sp, {})
            judge(rec, f"MosStack({ulabel}, nser={n})", case, (lambda ulabel=ulabel, n=n: MosStack(unit=build.leaf_call(ulabel, 5), nser=n)), ref)
    # a bundle port named as series port must be rejected at call time; unequal widths must not be built wrongly
    rec.count("probe.bundle-series-port")
    try:
        ub = [u for u in unit_specs() if u[0] == "ModBundle"][0]
        Series(unit=real_unit(ub[1], ub[2]), conns=("a", "bp"), nser=2)
        rec.violation("bundle-series-port-accepted", "Series accepted a bundle-valued port as a series port", case={"gen": "Series", "probe": "bundle"})
    except Exception:
        pass
    # ill-formed series pairs: one port twice
    rec.count("probe.same-port-twice")
    try:
        m = Series(unit=build.leaf_call("R", 5), conns=("p", "p"), nser=2)
        h.to_proto(m)
        rec.violation("ill-formed-series-pair-accepted", "Series(R, conns=('p', 'p'), nser=2) was built and exported", case={"gen": "Series", "probe": "same-port"})
    except Exception:
        pass
    # ... for EVERY number in series (nser = 1 builds a plain wrapper, which never looks at the pair by itself)
    e3 = [u for u in unit_specs() if u[0] == "E3"]
    for n in (1, 2, 3):
        for what, mk in (("one port twice", lambda n=n: Series(unit=build.leaf_call("R", 5), conns=("p", "p"), nser=n)),
                         ("a port the unit does not have", lambda n=n: Series(unit=build.leaf_call("R", 5), conns=("p", "zz"), nser=n)),
                         ("MosStack of a unit without d / s", lambda n=n: MosStack(unit=build.leaf_call("R", 5), nser=n)),
                         ("series ports of unequal widths", (lambda n=n: Series(unit=real_unit(e3[0][1], e3[0][2]), conns=("p", "r"), nser=n)) if e3 else None),
                         ("a bundle-valued series port", lambda n=n: Series(unit=real_unit(ub[1], ub[2]), conns=("a", "bp"), nser=n)),
                         # the name a bundle port's member is FLATTENED to is no port of the unit - whether the unit was elaborated before or not
                         ("a flattened member name as series port", lambda n=n: Series(unit=real_unit(ub[1], ub[2]), conns=("a", "bp_x"), nser=n)),
                         ("a flattened member name as series port (unit elaborated before)",
                          lambda n=n: Series(unit=real_unit(ub[1], ub[2], pre_elaborated=True), conns=("a", "bp_x"), nser=n)),
                         ("a flattened member name as series port (unit below a failed parent)",
                          lambda n=n: Series(unit=real_unit(ub[1], ub[2], pre_elaborated="below-failed-parent"), conns=("bp_x", "b"), nser=n))):
            if mk is None:
                continue
            rec.count("probe.ill-formed-pairs")
            try:
                h.to_proto(mk())
                rec.violation("ill-formed-series-pair-accepted", f"Series / MosStack with {what}, nser={n}, was built and exported", case={"gen": "Series", "probe": what, "n": n})
            except Exception:
                pass
    # the generated module's ports are COPIES: what is written on them afterwards stays theirs, and what the unit's ports carried
    # at the time (descriptions, properties) is carried over - for scalar and bundle-valued ports
    for gname, gen in (("Wrapper", lambda u: Wrapper(u)), ("Series", lambda u: Series(unit=u, conns=("a", "b"), nser=2)), ("Series-1", lambda u: Series(unit=u, conns=("a", "b"), nser=1))):
        rec.count("probe.port-copies")
        u = h.Module(name=f"CpUnit{next(build._counter)}")
        u.add(h.Input(desc="in"), name="a")
        u.add(h.Output(), name="b")
        u.add(h.Diff(port=True, desc="bundle port"), name="bb")
        u.a.props.set("layer", "met1")
        u.bb.props.set("k", 1)
        u.add(h.R(r=1)(p=u.a, n=u.b), name="r")
        u.add(h.R(r=1)(p=u.bb.p, n=u.bb.n), name="r2")
        case = {"gen": gname, "probe": "port-copies"}
        try:
            g1 = gen(u)
            g1.name = f"{g1.name}_{next(build._counter)}"
            got = {"a.desc": g1.a.desc, "a.layer": g1.a.props.get("layer"), "bb.desc": g1.bb.desc, "bb.k": g1.bb.props.get("k")}
            want = {"a.desc": "in", "a.layer": "met1", "bb.desc": "bundle port", "bb.k": 1}
            if got != want:
                rec.violation("port-copy-loses-metadata", f"{gname}: the copied ports carry {got}, the unit's ports {want}", case=case)
            g1.a.props.set("layer", "EDITED")
            g1.bb.props.set("k", "EDITED")
            g2 = gen(u)
            leaked = {"unit a": u.a.props.get("layer"), "unit bb": u.bb.props.get("k")}
            if g2 is not g1:  # (Series is memoised: the same call gives the same module)
                leaked.update({"later module a": g2.a.props.get("layer"), "later module bb": g2.bb.props.get("k")})
            if "EDITED" in leaked.values():
                rec.violation("port-copy-shares-state", f"{gname}: a property set on a port of the generated module shows up on {[k for k, v in leaked.items() if v == 'EDITED']}",
                              case=case)
        except Exception as e:
            rec.violation(f"valid-unit-rejected:{type(e).__name__}", f"{gname} over a unit with described / annotated ports raised: {str(e)[:100]}", case=case)
    # a unit whose interface changed between two uses (an ExternalModule's port list edited in place, a port appended / removed):
    # every generated module has the ports the unit has WHEN it is generated, all of them connected
    # (Series is memoised by its parameters: the second use asks for another number in series, a call of its own)
    for gname, gen in (("Wrapper", lambda u, k: Wrapper(u)), ("Series", lambda u, k: Series(unit=u, conns=("a", "b"), nser=2 + k))):
        for edit in ("append", "pop", "rename"):
            rec.count("probe.edited-unit")
            case = {"gen": gname, "probe": "edited-unit", "edit": edit}
            uid = next(build._counter)
            mkports = lambda: [h.Inout(name="a"), h.Inout(name="b"), h.Input(name="en")]
            X = h.ExternalModule(name=f"EdUnit{uid}", domain="hved19", port_list=mkports(), paramtype=h.HasNoParams)
            try:
                first = gen(X(), 0)
                first.name = f"{first.name}_{uid}a"
                h.to_proto(first)
                if edit == "append":
                    X.port_list.append(h.Inout(name="sub"))
                elif edit == "pop":
                    X.port_list.pop()
                else:
                    X.port_list[2].name = "enable"
                second = gen(X(), 1)
                second.name = f"{second.name}_{uid}b"
                pm = h.to_proto(second).modules[-1]
            except Exception as e:
                rec.violation(f"valid-unit-rejected:{type(e).__name__}", f"{gname} over an external module used before and after a port was "
                              f"{edit}ed raised: {str(e)[:100]}", case=case)
                continue
            want = sorted(p_.name for p_ in X.port_list)
            got = sorted(p_.signal for p_ in pm.ports)
            conn = [sorted(c.portname for c in i.connections) for i in pm.instances]
            if got != want or any(c != want for c in conn):
                rec.violation("generated-ports-stale", f"{gname} over an external module whose port list was edited ({edit}) after a first use: the unit now has ports "
                              f"{want}, the generated module {got}, its instances connect {conn}", case=case, edit=edit)
    rec.exhaustive = True
    rec.extra["N"] = N


def replay(ctx, rec, case):
    rec.inconclusive.append("re-run the check: cases are enumerated deterministically")
    run(ctx, rec)
    rec.inconclusive.clear()
