"""
The design program of C12, run in several fresh processes under different configurations:

    python -m hv.checks.c12_prog <seed> <n random designs> '<config json>'

config: {"junk_alloc": k, "junk_elab": k, "gc": bool}  (PYTHONHASHSEED comes from the environment)
Prints one line  C12PROG {label: {"pkg": sha, "spice": sha, "spectre": sha, "verilog": sha | "raised:<Type>"}}
"""

import gc
import hashlib
import io
import json
import random
import sys


def sha(b) -> str:
    if isinstance(b, str):
        b = b.encode()
    return hashlib.sha256(b).hexdigest()[:20]


PERTURBED = {}  # knob -> how many of the requested pieces of earlier work were actually carried out


def perturb(cfg):
    """Unrelated earlier work: allocations (shifts object addresses) and elaborations (fills the global caches)."""
    import hdl21 as h

    junk = []
    PERTURBED.clear()
    r = random.Random(cfg.get("junk_alloc", 0))
    for k in range(cfg.get("junk_alloc", 0)):
        junk.append([object() for _ in range(r.randint(1, 50))])
        if r.random() < 0.3:
            junk.pop(r.randrange(len(junk)))
    for k in range(cfg.get("junk_elab", 0)):
        m = h.Module(name=f"Junk{k}")
        m.add(h.Signal(width=3), name="s")
        m.add(h.Instance(of=h.R(r=k + 1))(p=m.s[0], n=m.s[1]), name="r")
        h.elaborate(m)
    # unrelated exports of designs whose external modules are NAMED like the program's (same domain and name: another view of the
    # same cell library, or a notebook cell re-run after editing) but declare other ports, parameters and spice types
    for k in range(cfg.get("junk_ext", 0)):
        try:
            from hv import refsem

            m = h.Module(name=f"JunkExt{k}")
            m.add(h.Signal(), name="one")
            for j, (lname, d) in enumerate(sorted(refsem.LEAVES.items())):
                if d.get("kind") != "ext":
                    continue
                x = h.ExternalModule(name=d.get("extname", lname), domain=d.get("domain", "hvlib"), port_list=[h.Input(name="only"), h.Output(name="other")],
                                     paramtype=h.HasNoParams)
                m.add(h.Instance(of=x())(only=m.one, other=m.one), name=f"x{j}")
            pkg = h.to_proto(m)
            h.netlist(pkg, io.StringIO(), fmt="spice")
            PERTURBED["junk_ext"] = PERTURBED.get("junk_ext", 0) + 1
        except Exception:
            pass
    # unrelated PDK compiles of devices whose sizes are numerically equal to, but written differently from, the program's
    for k in range(cfg.get("junk_pdk", 0)):
        for kind in PDKS:
            try:
                t = pdk_design(kind, f"JunkPdk{k}", alt=k + 1)
                pdk_module(kind).compile(t)
                PERTURBED["junk_pdk"] = PERTURBED.get("junk_pdk", 0) + 1
            except Exception:
                pass
    # unrelated calls of the built-in generators with parameters EQUAL to the program's, written differently, and an unrelated
    # PDK compile of a design that uses the same generator call as the program
    for k in range(cfg.get("junk_gen_spell", 0)):
        try:
            from hdl21.generators import Series
            from hdl21.prefix import MILLI

            Series(unit=h.R(r=1000 * MILLI), conns=("p", "n"), nser=2)
            PERTURBED["junk_gen_spell"] = PERTURBED.get("junk_gen_spell", 0) + 1
        except Exception:
            pass
    for k in range(cfg.get("junk_gen_compile", 0)):
        try:
            from hdl21.generators import MosStack

            t = h.Module(name=f"JunkGen{k}")
            t.a, t.b, t.g, t.v = h.Signal(), h.Signal(), h.Signal(), h.Signal()
            t.st = MosStack(unit=h.Nmos(), nser=2)(d=t.a, s=t.b, g=t.g, b=t.v)
            pdk_module("sky130").compile(t)
            PERTURBED["junk_gen_compile"] = PERTURBED.get("junk_gen_compile", 0) + 1
        except Exception:
            pass
    if not cfg.get("gc", True):
        gc.disable()
    return junk


PDKS = ("sample", "sky130", "gf180", "asap7")


def pdk_module(kind):
    import importlib

    return importlib.import_module("hdl21.pdk.sample_pdk" if kind == "sample" else f"{kind}_hdl21")


def pdk_design(kind, name, alt=0):
    """A two-level design of generic primitives.  alt > 0: the same VALUES written with other prefixes."""
    import hdl21 as h
    from hdl21.prefix import n, µ, m, K
    from hdl21.primitives import MosType

    spell = [
        dict(w=1 * µ, l=150 * n, w2=2 * µ, r=1 * K, c=1 * n),
        dict(w=1000 * n, l=0.15 * µ, w2=0.002 * m, r=1000, c=0.001 * µ),
        dict(w=0.001 * m, l=0.00015 * m, w2=2000 * n, r=0.001 * 1000 * K, c=1000 * 0.001 * n),
    ][alt % 3]
    nm = {"sky130": "NMOS_1p8V_STD", "gf180": "NFET_3p3V"}.get(kind)
    pm = {"sky130": "PMOS_1p8V_STD", "gf180": "PFET_3p3V"}.get(kind)
    inv = h.Module(name=name + "Inv")
    inv.i, inv.o, inv.VDD, inv.VSS = h.Input(), h.Output(), h.Port(), h.Port()
    nk = dict(model=nm) if nm else dict(tp=MosType.NMOS)
    pk = dict(model=pm) if pm else dict(tp=MosType.PMOS)
    inv.mn = h.Mos(w=spell["w"], l=spell["l"], **nk)(d=inv.o, g=inv.i, s=inv.VSS, b=inv.VSS)
    inv.mp = h.Mos(w=spell["w2"], l=spell["l"], **pk)(d=inv.o, g=inv.i, s=inv.VDD, b=inv.VDD)
    top = h.Module(name=name)
    top.a, top.b, top.c, top.VDD, top.VSS = h.Signal(), h.Signal(), h.Signal(), h.Signal(), h.Signal()
    top.i0 = inv(i=top.a, o=top.b, VDD=top.VDD, VSS=top.VSS)
    top.i1 = inv(i=top.b, o=top.c, VDD=top.VDD, VSS=top.VSS)
    top.r = h.R(r=spell["r"])(p=top.c, n=top.a)
    top.cc = h.C(c=spell["c"])(p=top.c, n=top.VSS)
    return top


def directed(design):
    """All ports directed (so that the verilog netlister applies)."""
    for m in design["modules"]:
        for p in m["ports"]:
            if len(p) > 2 and p[2] == "none":
                p[2] = "inout"
    return design


def designs(seed, n):
    from hv import spec

    out = []
    for label, d in spec.structural_designs():
        if label.startswith(("bundle-", "pref-", "array-", "pair-", "noconn-")):
            out.append((label, d))
    rng = random.Random(seed)
    for k in range(n):
        out.append((f"random #{k}", spec.random_design(rng)))
    return out


def run(seed, n, cfg):
    import hdl21 as h
    from hv import build

    keep = perturb(cfg)
    res = {"__perturbed__": dict(PERTURBED)}
    for idx, (label, d) in enumerate(designs(seed, n)):
        d = directed(d)
        entry = {}
        try:
            built = build.build(d, uid=f"_p{idx}")
            pkg = h.to_proto(built.top)
            entry["pkg"] = sha(pkg.SerializeToString(deterministic=True))
        except Exception as e:
            res[label] = {"pkg": f"raised:{type(e).__name__}"}
            continue
        for fmt in ("spice", "spectre", "verilog"):
            try:
                dest = io.StringIO()
                h.netlist(pkg, dest, fmt=fmt)
                entry[fmt] = sha(dest.getvalue())
            except Exception as e:
                entry[fmt] = f"raised:{type(e).__name__}"
        res[label] = entry
    # PDK-compiled designs
    for kind in PDKS:
        label = f"pdk:{kind}"
        try:
            t = pdk_design(kind, f"C12Pdk_{kind}")
            pdk_module(kind).compile(t)
            pkg = h.to_proto(t)
            entry = {"pkg": sha(pkg.SerializeToString(deterministic=True))}
            for fmt in ("spice", "spectre"):
                try:
                    dest = io.StringIO()
                    h.netlist(pkg, dest, fmt=fmt)
                    entry[fmt] = sha(dest.getvalue())
                except Exception as e:
                    entry[fmt] = f"raised:{type(e).__name__}"
            res[label] = entry
        except Exception as e:
            res[label] = {"pkg": f"raised:{type(e).__name__}"}
    # generator calls shared (through the generator cache) with unrelated earlier work
    try:
        from hdl21.generators import Series, MosStack
        from hdl21.prefix import UNIT

        m = Series(unit=h.R(r=1 * UNIT), conns=("p", "n"), nser=2)
        res["generators:cached-call-equal-value"] = {"pkg": sha(h.to_proto(m).SerializeToString(deterministic=True))}
        t = h.Module(name="C12StackTop")
        t.a, t.b, t.g, t.v = h.Signal(), h.Signal(), h.Signal(), h.Signal()
        t.st = MosStack(unit=h.Nmos(), nser=2)(d=t.a, s=t.b, g=t.g, b=t.v)
        pdk_module("sample").compile(t)
        res["generators:cached-call-compiled"] = {"pkg": sha(h.to_proto(t).SerializeToString(deterministic=True))}
    except Exception as e:
        res["generators:cached-call-equal-value"] = {"pkg": f"raised:{type(e).__name__}"}
    # hdl21.pdk.compile without naming a PDK while several are registered (whatever it does, it does it in every process)
    try:
        import hdl21.pdk as hp

        for kind in PDKS:
            pdk_module(kind)
        t = pdk_design("sample", "C12PdkDefault")
        try:
            hp.compile(t)
            pkg = h.to_proto(t)
            res["pdk:default-of-several"] = {"pkg": sha(pkg.SerializeToString(deterministic=True))}
        except Exception as e:
            res["pdk:default-of-several"] = {"pkg": f"raised:{type(e).__name__}"}
    except Exception as e:
        res["pdk:default-of-several"] = {"pkg": f"raised-outside:{type(e).__name__}"}
    # flatten(): the flat module's package and netlists
    try:
        from hdl21.flatten import flatten as hflatten
        from hv.checks import c16

        frng = random.Random(seed + 77)
        for k in range(12):
            d = c16.gen_design(frng)
            label = f"flatten #{k}"
            try:
                fm = hflatten(build.build(d, uid=f"_fl{k}").top)
                pkg = h.to_proto(fm)
                entry = {"pkg": sha(pkg.SerializeToString(deterministic=True))}
                for fmt in ("spice", "verilog"):
                    try:
                        dest = io.StringIO()
                        h.netlist(pkg, dest, fmt=fmt)
                        entry[fmt] = sha(dest.getvalue())
                    except Exception as e:
                        entry[fmt] = f"raised:{type(e).__name__}"
                res[label] = entry
            except Exception as e:
                res[label] = {"pkg": f"raised:{type(e).__name__}"}
    except Exception as e:
        res["flatten #0"] = {"pkg": f"raised-outside:{type(e).__name__}"}
    # built-in generators and an example
    from hdl21.generators import Series, MosStack

    for nser in (1, 2, 3):
        for label, thunk in ((f"Series(R,{nser})", lambda: Series(unit=h.R(r=1), conns=("p", "n"), nser=nser)),
                             (f"MosStack({nser})", lambda: MosStack(nser=nser))):
            try:
                pkg = h.to_proto(thunk())
                res[label] = {"pkg": sha(pkg.SerializeToString(deterministic=True))}
            except Exception as e:
                res[label] = {"pkg": f"raised:{type(e).__name__}"}
    # generated modules: names and the package of a parent instantiating all of them
    try:
        from hv.checks import c09_prog

        events, runs, gens = c09_prog.run_program(seed, 0, 150)
        ok = [e for e in events if "module" in e]
        res["generators:names"] = {"pkg": sha(json.dumps(sorted({e["module"].name for e in ok})))}
        distinct = {}
        for e in ok:
            distinct.setdefault(id(e["module"]), e["module"])
        parent = h.Module(name="C12GenParent")
        for k, m in enumerate(distinct.values()):
            conns = {pn: parent.add(h.Signal(width=p.width), name=f"s{k}_{pn}") for pn, p in m.ports.items()}
            parent.add(h.Instance(of=m)(**conns), name=f"i{k}")
        pkg = h.to_proto(parent)
        entry = {"pkg": sha(pkg.SerializeToString(deterministic=True))}
        for fmt in ("spice", "spectre", "verilog"):
            try:
                dest = io.StringIO()
                h.netlist(pkg, dest, fmt=fmt)
                entry[fmt] = sha(dest.getvalue())
            except Exception as e:
                entry[fmt] = f"raised:{type(e).__name__}"
        res["generators:parent"] = entry
    except Exception as e:
        res["generators:parent"] = {"pkg": f"raised:{type(e).__name__}"}
    return res


def main():
    sys.path.insert(0, __file__.rsplit("/hv/", 1)[0])
    from hv import env

    env.bootstrap()
    seed, n, cfg = int(sys.argv[1]), int(sys.argv[2]), json.loads(sys.argv[3])
    print("C12PROG " + json.dumps(run(seed, n, cfg), sort_keys=True))


if __name__ == "__main__":
    main()
