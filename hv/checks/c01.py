"""
C01 -- elaboration and export preserve the connectivity the designer wrote.
Oracle: match(R1(spec), R2(to_proto)) and match(R1(spec), R3(spice text)); see hv.oracle.
"""

from __future__ import annotations

import copy

from .. import oracle, refsem, spec
from ..runner import jhash

LEVEL = "exploration"
RULE = ("designs = (a) exhaustive kernel family: one leaf port of width 1..3 tied to every connection-expression shape of "
        "nesting depth <= D over signals / slices / concats / bundle refs / port refs, each port-ref target in 5 states "
        "(tied to signal, unconnected, slice, concat, another port-ref); (b) structural kernels: port-ref chains / fans / "
        "cycles with and without a signal, no-connect forms, every bundle form x 5 bundle shapes x flip, arrays, pairs; "
        "(c) seeded random hierarchies (<= 5 modules, shared sub-modules, widths <= 5, built procedurally / class-style / in "
        "generators). distinct = canonical spec hash; non-trivial = >= 2 leaves, >= 1 net with >= 2 terminals and >= 1 "
        "non-plain-signal construct")
ASSUMPTIONS = [
    "R1 (hv.refsem) is the meaning of a design: Slice = Python list slicing, Concat = list concatenation with the first "
    "part lowest, PortRef = the terminal bits of the referenced port, one private net per no-connect use",
    "a package is read the way every vlsirtools netlister reads it (MSB-first positional pairing)",
    "C01 constrains returned packages; a valid design that is rejected is counted (accepted/rejected histogram), not alarmed",
]
REQUIRED_COUNTERS = ["oracle.compared"]
MIN_EVALS = 300
MIN_NONTRIVIAL = 200


def classify(design, o) -> str:
    return "connectivity-mismatch"


def one(rec, label, design, spice):
    o = oracle.judge(design, spice=spice)
    key = jhash(design)
    if o.status == "invalid-spec":
        rec.count("generator.invalid-spec")
        rec.hist("invalid_spec_reasons", o.exc.split(":")[0])
        return o
    feats = spec.features(design)
    nt = spec.nontrivial(design, o.ref)
    rec.case(key=key, nontrivial=nt,
             sample={"label": label, "features": feats, "leaves": len(o.ref.leaves), "nets": len(o.ref.nets),
                     "top": design["modules"][-1]} if rec.evaluations % 400 == 0 else None)
    fam = label.split(" ")[0].split("-")[0]
    if o.status == "rejected":
        rec.count("outcome.rejected")
        rec.hist("rejected_by_family", fam)
        rec.hist("rejection_signatures", o.exc[:100])
        return o
    rec.count("oracle.compared")
    rec.hist("accepted_by_family", fam)
    for f in feats:
        rec.hist("accepted_by_feature", f)
    if o.status != "ok":
        rec.violation(classify(design, o), f"[{label}] exported circuit differs from the design: " + "; ".join(o.diffs[:3]),
                      case={"label": label, "design": design}, **flags(design))
    if "anon" in feats and "anon_order" not in design and rec.evaluations % 2 == 0:
        # the same design with the members of every anonymous bundle written in the opposite order
        d2 = copy.deepcopy(design)
        d2["anon_order"] = "reversed"
        rec.count("driver.anon-members-reversed")
        one(rec, label + " (anonymous-bundle members written in reverse order)", d2, False)
    return o


def flags(design) -> dict:
    """Witness flags naming the mechanism classes a design touches (used by known-finding predicates)."""
    f = {"pref_to_slice_or_concat_port": False, "noconn_on_array_bundle_port": False}
    for m in design["modules"]:
        by = {i["name"]: i for i in m["insts"]}
        for i in m["insts"]:
            if i.get("kind") == "array" and i.get("n", 1) > 1:
                _, bp = refsem.iface(design, i["of"])
                if any(e[0] == "nc" and port in bp for port, e in i["conns"].items()):
                    f["noconn_on_array_bundle_port"] = True

        def scan(e):
            if e[0] == "pref":
                tgt = by.get(e[1])
                if tgt is not None:
                    c = tgt["conns"].get(e[2])
                    if c is not None and c[0] in ("slice", "cat"):
                        f["pref_to_slice_or_concat_port"] = True
            elif e[0] == "slice":
                scan(e[1])
            elif e[0] == "cat":
                for p in e[1:]:
                    scan(p)
            elif e[0] == "anon":
                for p in e[1].values():
                    scan(p)

        for i in m["insts"]:
            for e in i["conns"].values():
                scan(e)
    return f


def run(ctx, rec):
    rng = ctx.rng("c01")
    depth = 2 if ctx.quick else 3
    tier = 1 if ctx.quick else 2
    n_random = 1200 if ctx.quick else 8000
    spice = True
    if ctx.nshards == 1 or ctx.shard == 0:
        for k, (label, d) in enumerate(spec.structural_designs()):
            one(rec, label, d, spice)
            if k % 2 == 0:
                # the same design, every port first tied to something else and then re-connected
                d2 = copy.deepcopy(d)
                d2["rewire"] = ["pref", "signal", "pref-one"][(k // 2) % 3]
                rec.count("driver.rewired")
                one(rec, label + " (re-connected)", d2, False)
    kd = list(spec.kernel_designs(depth, tier))
    if ctx.nshards > 1:
        kd = kd[ctx.shard:: ctx.nshards]
    elif not ctx.quick:
        pass
    for label, d in kd:
        one(rec, label, d, spice)
    rec.extra["kernel_designs"] = len(kd)
    for k in range(n_random):
        d = spec.random_design(rng)
        one(rec, f"random #{k}", d, spice and k % 3 == 0)
    acc = rec.counters.get("oracle.compared", 0)
    rej = rec.counters.get("outcome.rejected", 0)
    rec.extra["accepted"] = acc
    rec.extra["rejected_valid_designs"] = rej
    if acc + rej and acc / (acc + rej) < 0.5:
        rec.inconclusive.append(f"only {acc} of {acc + rej} valid designs were accepted by the library")
    rec.exhaustive = False


def shards(ctx):
    return 16


def replay(ctx, rec, case):
    one(rec, case.get("label", "replay"), case["design"], True)
