"""
C09 -- generator calls are memoised and their modules uniquely named.

Monitors: a wrapper on `hdl21.generator.run` (M-gen: counts calls, cache hits) and a body counter inside every generator of
the program (hv.checks.c09_prog).  Offline checker over the event list {gen, params, form, module id, name at return}:
functional (equal params => same Module, body ran once), injective (unequal params => different exported names and
different Modules), stable (names re-read at the end equal the names at return), exportable (a parent instantiating every
result exports with one module per distinct result), process-independent (the same program run in fresh processes under
different PYTHONHASHSEED and call orders yields the same call -> name map).
"""

import itertools
import json
import subprocess

from .. import env
from ..runner import jhash
from . import c09_prog

LEVEL = "exploration"
RULE = ("calls = seeded list over 9 generators covering scalar / optional / enum / nested param-class / Prefixed / Scalar / "
        "Module-valued / Generator-valued fields, recursion, calls from inside other generators and a generator handing on "
        "another generator's module; values biased to strings with spaces, '=' and quotes, names crossing the 128-character "
        "limit, 1 / 1.0 / True coercions and differently written equal numbers (1000*m vs 1*UNIT); both call forms; every "
        "PAIR of calls of one generator is checked (functional / injective). distinct = (generator, params repr); "
        "non-trivial = the generator has parameters")
ASSUMPTIONS = [
    "'equal parameters' means == on the validated param-class instances",
    "exported name = hdl21.qualname.qualname(module), the name the exporter uses",
]
REQUIRED_COUNTERS = ["pairs.equal", "pairs.unequal", "export.checked", "process.compared", "delivery.checked"]
MIN_EVALS = 300
MIN_NONTRIVIAL = 100


def safe_eq(a, b):
    """Equality of two parameter values, field by field (independent of the generated dataclass __eq__, which is part of
    what is being checked: the cache key relies on it)."""
    try:
        fields = getattr(type(a), "__params__", None)
        if fields is not None and type(a) is type(b):
            return all(safe_eq(getattr(a, f), getattr(b, f)) for f in fields)
        return bool(a == b)
    except Exception:
        return a is b


def analyse(rec, events, runs, label, gens=None):
    from hdl21.qualname import qualname

    ok = [e for e in events if "module" in e]
    for e in events:
        if "error" in e:
            rec.count("calls.raised")
            rec.hist("call_errors", e["error"][:70])
    by_gen = {}
    for e in ok:
        by_gen.setdefault(e["gen"], []).append(e)
        rec.case(key=f"{e['gen']}:{e['params']!r}", nontrivial=True,
                 sample={"gen": e["gen"], "form": e["form"], "kwargs": e["kw"], "name": e["name_at_return"]} if rec.evaluations % 120 == 7 else None)
    for g, evs in by_gen.items():
        for a, b in itertools.combinations(evs, 2):
            case = {"kind": "pair", "gen": g, "a": a["kw"], "b": b["kw"], "forms": [a["form"], b["form"]]}
            if safe_eq(a["params"], b["params"]):
                rec.count("pairs.equal")
                if a["module"] is not b["module"]:
                    rec.violation("equal-params-two-modules", f"{g}: calls with equal parameters {a['kw']} ({a['form']}) and {b['kw']} ({b['form']}) "
                                                              f"returned two different Modules ({a['module'].name} / {b['module'].name})", case=case)
            else:
                rec.count("pairs.unequal")
                if a["module"] is b["module"]:
                    rec.violation("unequal-params-one-module", f"{g}: calls with unequal parameters {a['kw']} and {b['kw']} returned one Module", case=case)
                elif qualname(a["module"]) == qualname(b["module"]):
                    rec.violation("unequal-params-one-name", f"{g}: unequal parameters {a['kw']} and {b['kw']} give two Modules with one exported "
                                                            f"name '{qualname(a['module'])}'", case=case)
    # the body that produced a call's module was run with the parameters of that call (or equal ones)
    seen = (gens or {}).get("__seen__")
    if seen is not None:
        for e in ok:
            if e["form"] == "inner":
                continue
            rec.count("delivery.checked")
            if not any(safe_eq(p, e["params"]) for p in seen.get(e["gen"], [])):
                rec.violation("parameters-not-delivered", f"{e['gen']}({e['kw']}) ({e['form']}) returned a module although the generator body was never run "
                                                          f"with these parameters", case={"kind": "delivery", "gen": e["gen"], "kw": e["kw"], "form": e["form"]})
    # body ran once per distinct parameter value
    for (g, prepr), n in runs.items():
        rec.count("bodies.counted")
        if n != 1:
            rec.violation("body-ran-more-than-once", f"{g}: the body ran {n} times for parameters {prepr[:120]}", case={"kind": "runs", "gen": g})
    # stable names
    for e in ok:
        rec.count("names.rechecked")
        if e["module"].name != e["name_at_return"]:
            rec.violation("module-renamed-after-return", f"{e['gen']}({e['kw']}) returned a module named '{e['name_at_return']}' which is now named "
                                                         f"'{e['module'].name}'", case={"kind": "rename", "gen": e["gen"], "kw": e["kw"]})
        if qualname(e["module"]) != e["qualname_at_return"]:
            rec.violation("module-renamed-after-return", f"{e['gen']}({e['kw']}) returned a module exported as '{e['qualname_at_return']}' which is now "
                                                         f"exported as '{qualname(e['module'])}'", case={"kind": "rename", "gen": e["gen"], "kw": e["kw"]})
        if e["gen"] in ("G13", "Series*") and not qualname(e["module"]).startswith("hdl21.generators."):
            # a module generated by the built-in Series (defined in hdl21/generators.py), whoever handed it on afterwards
            rec.violation("module-renamed-after-return", f"{e['gen']}({e['kw']}): a module generated by hdl21.generators.Series is exported as '{qualname(e['module'])}' "
                                                         f"(qualified by another file than its generator's)", case={"kind": "rename", "gen": e["gen"], "kw": e["kw"]})
        if "0x" in e["module"].name:
            rec.violation("name-contains-address", f"{e['gen']}({e['kw']}): name '{e['module'].name}' contains a memory address", case={"kind": "addr"})
    # one module under two names / two modules under one name, across generators
    names = {}
    for e in ok:
        names.setdefault(qualname(e["module"]), set()).add(id(e["module"]))
    for nm, ids in names.items():
        if len(ids) > 1:
            pass  # reported per generator above; across generators the generator name is part of the name
    # exportable
    import hdl21 as h

    distinct = {}
    for e in ok:
        distinct.setdefault(id(e["module"]), e["module"])
    parent = h.Module(name=f"C09Parent{label}")
    for k, m in enumerate(distinct.values()):
        conns = {n: parent.add(h.Signal(width=p.width), name=f"s{k}_{n}") for n, p in m.ports.items()}
        parent.add(h.Instance(of=m)(**conns), name=f"i{k}")
    rec.count("export.checked")
    try:
        pkg = h.to_proto(parent)
        mods = [m.name for m in pkg.modules]
        if len(set(mods)) != len(mods):
            rec.violation("export-duplicate-names", f"the exported package holds duplicate module names", case={"kind": "export"})
    except Exception as e:
        rec.violation(f"export-fails:{type(e).__name__}", f"a design instantiating every generated module cannot be exported: {str(e)[:200]}",
                      case={"kind": "export"})


# fields whose declared type does not fix the Python type of a number (Any, Union, bare tuple / frozenset)
UNTYPED_FIELDS = {"G15": ("anyv", "tag"), "G10": ("t", "fs")}


def _kinds(x) -> str:
    if isinstance(x, bool):
        return "b"
    if isinstance(x, int):
        return "i"
    if isinstance(x, float):
        return "f"
    if isinstance(x, (list, tuple)):
        return "(" + ",".join(_kinds(e) for e in x) + ")"
    return "-"


def untyped_numeric_twin(g, kw, allcalls) -> bool:
    """Is there another call of generator `g` whose untyped fields hold numbers EQUAL to this call's but of another Python type
    (`1`, `1.0`, `True`; `0.0`, `-0.0`), all other parameters being equal?  Such calls are one call to the cache (Python equality),
    and the name is spelled after whichever came first."""
    fields = UNTYPED_FIELDS.get(g)
    if not fields:
        return False
    for g2, _, kw2 in allcalls:
        if g2 != g or kw2 is kw:
            continue
        try:
            if kw2 == kw and any(_kinds(kw2.get(f)) != _kinds(kw.get(f)) or repr(kw2.get(f)) != repr(kw.get(f)) for f in fields
                                 if isinstance(kw.get(f), (bool, int, float, list, tuple)) or isinstance(kw2.get(f), (bool, int, float, list, tuple))):
                return True
        except Exception:
            continue
    return False


def child(vs, order_seed, n, hashseed):
    p = subprocess.run([env.PY, "-m", "hv.checks.c09_prog", str(vs), str(order_seed), str(n)], capture_output=True, text=True,
                       env=env.child_env({"PYTHONHASHSEED": hashseed}), cwd=str(env.VERIF), timeout=300)
    line = [l for l in p.stdout.splitlines() if l.startswith("C09PROG ")]
    if not line:
        return None, p.stderr[-300:]
    return json.loads(line[0][8:]), None


def declaration_probes(rec):
    """Param-classes written in the ways a dataclass user would write them: every field that can be given to the constructor
    is a parameter (named, compared, delivered), or the declaration is refused."""
    import hdl21 as h
    from hdl21.qualname import qualname

    decls = {
        "annotation-only": lambda: type("BusParams", (), {"__annotations__": {"width": int}, "n": h.Param(dtype=int, desc="n", default=0)}),
        "annotation-with-default": None,  # (a plain class attribute: refused by the existing attribute check; built below)
        "annotated-param": lambda: type("BusParams", (), {"__annotations__": {"width": int}, "width": h.Param(dtype=int, desc="w", default=1),
                                                            "n": h.Param(dtype=int, desc="n", default=0)}),
        "annotation-only-single": lambda: type("BusParams", (), {"__annotations__": {"width": int}}),
    }
    decls["annotation-with-default"] = lambda: type("BusParams", (), {"__annotations__": {"width": int}, "width": 4, "n": h.Param(dtype=int, desc="n", default=0)})
    for dname, mk in decls.items():
        rec.count("declarations.probed")
        case = {"kind": "declaration", "decl": dname}
        rec.case(key=f"decl:{dname}", nontrivial=True, sample=case)
        try:
            PC = h.paramclass(mk())
        except Exception:
            rec.count("declarations.refused")
            if dname == "annotated-param":
                rec.violation("good-paramclass-refused", "a Param with a (redundant) annotation was refused", case=case)
            continue
        rec.count("declarations.accepted")
        bodies = []

        def G(p: PC) -> h.Module:
            bodies.append(p)
            m = h.Module()
            m.add(h.Port(width=p.width), name="a")
            return m

        G.__name__ = f"DeclGen_{dname.replace('-', '_')}"
        gen = h.generator(G)
        try:
            ms = [gen(width=w) for w in (1, 2, 1)]
        except Exception:
            rec.count("declarations.call-refused")
            continue
        rec.count("declarations.called")
        if ms[0] is not ms[2]:
            rec.violation("equal-params-two-modules", f"paramclass declared with {dname}: two calls with width=1 returned two modules", case=case)
        if ms[0] is ms[1]:
            rec.violation("unequal-params-one-module", f"paramclass declared with {dname}: width=1 and width=2 returned one Module", case=case)
        elif qualname(ms[0]) == qualname(ms[1]):
            rec.violation("unequal-params-one-name", f"paramclass declared with {dname}: width=1 and width=2 give two Modules (port widths "
                          f"{ms[0].a.width}, {ms[1].a.width}) with one exported name '{qualname(ms[0])}'", case=case, declaration=dname)


def run(ctx, rec):
    if ctx.shard == 0:
        declaration_probes(rec)
    n = 420 if ctx.quick else 2000
    nproc = 4 if ctx.quick else 16
    vs = ctx.seed * 100 + ctx.shard
    events, runs, gens = c09_prog.run_program(vs, 0, n)
    analyse(rec, events, runs, f"s{ctx.shard}", gens)
    # process independence: same values, different hash seeds and call orders
    maps = []
    for k in range(nproc):
        m, err = child(vs, k, n, str(k) if k % 4 != 3 else "random")
        if m is None:
            rec.inconclusive.append(f"child process {k} produced no output: {err}")
            continue
        maps.append((k, m))
    base = None
    for k, m in maps:
        rec.count("process.compared")
        if base is None:
            base = (k, m)
            continue
        reported = set()
        allcalls = c09_prog.calls(vs, n)
        for i in sorted(set(base[1]) | set(m), key=int):
            a, b = base[1].get(i), m.get(i)
            if a != b:
                g, form, kw = allcalls[int(i)]
                twin = untyped_numeric_twin(g, kw, allcalls)
                if (g, twin) in reported:
                    continue
                reported.add((g, twin))
                rec.violation("name-depends-on-process-or-order",
                              f"call #{i} {g}({kw}) is named {a} in process {base[0]} and {b} in process {k} (different PYTHONHASHSEED / call order)"
                              + ("; another call of this generator gives an untyped field an EQUAL number of another Python type (1 / 1.0 / True)" if twin else ""),
                              case={"kind": "process", "call": [g, form, kw], "value_seed": vs}, untyped_numeric_twin=twin)
                if len(reported) >= 6:
                    break
    rec.extra["processes"] = len(maps)
    rec.exhaustive = False


def shards(ctx):
    return 8


def replay(ctx, rec, case):
    run(ctx, rec)
