"""
C02 -- ill-formed designs never yield a package or a netlist.

Fault enumeration: every valid base design x every single-fault mutation at every site where it can occur.  After
mutation R1 (hv.refsem.validate) must agree that the design is ill-formed for that reason -- otherwise the mutant is
discarded and counted -- except for the fault classes R1 cannot see (ownership, cycles, unnamed / name-clashing
modules), which are ill-formed by construction.  `elaborate`, `to_proto` and `netlist` are each called on a
freshly built copy (a failure poisons the caches -- that is C08's subject); any *return* is a violation.
"""

from __future__ import annotations

import copy
import io

from .. import build, oracle, refsem, spec
from ..runner import jhash

LEVEL = "fault_enumeration"
RULE = ("mutants = (valid base design: structural kernels + seeded random hierarchies) x (fault class: width+1, width-1, "
        "dropped connection, extra connection, port-reference to a missing port, bundle reference / anonymous bundle to a "
        "missing or extra member, index out of range, empty slice, foreign signal, orphan signal, foreign bundle, foreign "
        "instance reference, referenced no-connect, array width not in {w, n*w}, self- and 2-cycle instantiation, unnamed "
        "module, name-clashing modules) x (every site of the design where that fault can be planted; site kind = kind of "
        "the connection expression x instance kind x hierarchy depth); each mutant x 3 calls (elaborate, to_proto, netlist). "
        "distinct = mutant hash; non-trivial = the planted fault is confirmed ill-formed by R1 or is ill-formed by construction")
ASSUMPTIONS = [
    "single faults only",
    "R1's validity judgement (widths, coverage of ports, names, index ranges) is the reference for 'ill-formed'",
    "the exception type is not constrained: any exception counts as a rejection",
]
REQUIRED_COUNTERS = ["calls.raised", "mutants.confirmed", "retries.raised"]
MIN_EVALS = 1500
MIN_NONTRIVIAL = 800

BY_CONSTRUCTION = {"renamed-signal-clash", "renamed-port", "renamed-instance-clash", "foreign-signal", "orphan-signal", "foreign-signal-nested", "orphan-signal-nested", "orphan-member", "foreign-bundle", "foreign-instance-ref", "self-cycle", "two-cycle",
                   "unnamed-module", "name-clash", "displaced-signal", "ext-name-clash", "mod-ext-name-clash", "renamed-bundle-member"}


def expr_kind(e):
    return e[0] if e is not None else "none"


def sites(design):
    """(module index, instance index, port, expr) for every connection, with hierarchy depth of the module."""
    depth = {}
    top = design["top"]

    def visit(name, d):
        depth[name] = max(depth.get(name, 0), d)
        for i in refsem.get_module(design, name)["insts"]:
            if i["of"][0] == "mod":
                visit(i["of"][1], d + 1)

    visit(top, 0)
    for mi, m in enumerate(design["modules"]):
        for ii, inst in enumerate(m["insts"]):
            sp, bp = refsem.iface(design, inst["of"])
            for port in list(sp) + list(bp):
                yield mi, ii, port, inst["conns"].get(port), ("bundle" if port in bp else "scalar"), depth.get(m["name"], 0)


def width_of(design, m, e):
    try:
        L = refsem.Local(design, m)
        return len(L.bits(e))
    except Exception:
        return None


def mutations(design, rng, limit_per_class):
    """Yield (fault class, site kind, mutant design)."""
    out = []

    def add(cls, site, d, expect=None):
        out.append((cls, site, d, expect))

    S = list(sites(design))
    for (mi, ii, port, e, pkind, depth) in S:
        m = design["modules"][mi]
        inst = m["insts"][ii]
        site = f"{expr_kind(e)}/{inst.get('kind', 'single')}/depth{min(depth, 2)}"

        def mutated(new_e, extra_sigs=(), delete=False, add_port=None):
            d = copy.deepcopy(design)
            mm = d["modules"][mi]
            d["fault_module"] = mm["name"]
            for s in extra_sigs:
                mm["sigs"].append(list(s))
            ci = mm["insts"][ii]["conns"]
            if delete:
                ci.pop(port, None)
            elif add_port:
                ci[add_port] = new_e
            else:
                ci[port] = new_e
            return d

        if e is None:
            continue
        if pkind == "scalar" and e[0] != "nc" and not (e[0] in ("bun", "anon")):
            w = width_of(design, m, e)
            if w is not None and e[0] != "pref" or (e[0] == "pref" and w is not None):
                add("width+1", site, mutated(["cat", e, ["sig", "zzx1"]], extra_sigs=[["zzx1", 1]]), "width-mismatch")
                if w and w >= 2:
                    add("width-1", site, mutated(["slice", e, [0, w - 1, None]]), "width-mismatch")
                if w:
                    add("index-out-of-range", site, mutated(["cat", ["slice", e, w]] if w == 1 else ["cat", ["slice", e, w]] + [["slice", e, [0, w - 1, None]]]),
                        "index-out-of-range")
                    add("index-out-of-range-neg", site, mutated(["cat", ["slice", e, -w - 1]] if w == 1 else ["cat", ["slice", e, -w - 1]] + [["slice", e, [0, w - 1, None]]]),
                        "index-out-of-range")
                    add("empty-slice", site, mutated(["cat", ["slice", e, [1, 1, None]], e][1:] if False else ["cat", ["slice", e, [w, w, None]], e]), "index-empty")
            if inst.get("kind") == "array" and w is not None:
                n = inst["n"]
                sp, _ = refsem.iface(design, inst["of"])
                pw = sp[port]
                bad = pw * n + 1 if n > 1 else pw + 1
                add("array-width", site, mutated(["sig", "zzarr"], extra_sigs=[["zzarr", bad]]), "width-mismatch")
            add("foreign-signal", site, mutated(["fsig", "__other__", "os%d" % (w or 1)]))
            add("orphan-signal", site, mutated(["orphan", w or 1]))
            add("foreign-instance-ref", site, mutated(["pref_foreign", "__other__", "oi", "z"]) if (w or 1) == 1 else None)
            if w and w >= 2:
                # ... the unowned / foreign signal as ONE part of a concatenation (last, first, middle), the rest being what was there
                lo, hi = ["slice", e, [0, w - 1, None]], ["slice", e, [1, w, None]]
                add("orphan-signal-nested", site, mutated(["cat", lo, ["orphan", 1]]))
                add("orphan-signal-nested", site, mutated(["cat", ["orphan", 1], hi]))
                add("foreign-signal-nested", site, mutated(["cat", lo, ["fsig", "__other__", "os1"]]))
                add("foreign-signal-nested", site, mutated(["cat", ["slice", e, 0], ["cat", ["fsig", "__other__", "os1"]]] + ([["slice", e, [2, w, None]]] if w > 2 else [])))
                if w >= 3:
                    add("orphan-signal-nested", site, mutated(["cat", ["slice", e, 0], ["orphan", 1], ["slice", e, [2, w, None]]]))
        if pkind == "scalar" and e[0] == "sig":
            # an attribute RE-NAMED (`sig.name = ...`) after it was added: to the name of another signal of the module (two nets under
            # one exported name), an instance to another instance's name, a child's port to a name its parents do not connect
            others_ = [s_[0] for s_ in m["sigs"] if s_[0] != e[1]] + [p_[0] for p_ in m["ports"] if p_[0] != e[1]]
            if others_:
                d = mutated(e)
                d["rename"] = [[m["name"], e[1], others_[0]]]
                add("renamed-signal-clash", site, d)
            oinsts = [i2["name"] for i2 in m["insts"] if i2 is not inst]
            if oinsts:
                d = mutated(e)
                d["rename"] = [[m["name"], inst["name"], oinsts[0]]]
                add("renamed-instance-clash", site, d)
            if inst["of"][0] == "mod" and inst.get("kind", "single") == "single":
                d = mutated(e)
                d["rename"] = [[inst["of"][1], port, "zzrenamedport"]]
                add("renamed-port", site, d)
        if pkind == "scalar" and e[0] == "sig" and depth <= 1:
            # the signal is displaced AFTER it was connected: its name is re-used for a new, wider signal
            w0 = width_of(design, m, e)
            if w0:
                d = mutated(e)
                d["displace"] = [m["name"], e[1], w0 + 1]
                add("displaced-signal", site, d)
        if pkind == "scalar" and inst.get("kind") == "pair" and e[0] == "anon":
            e6 = copy.deepcopy(e)
            e6[1]["zzextra"] = ["sig", "zzx1"]
            add("extra-member", f"anon/pair/depth{min(depth, 2)}", mutated(e6, extra_sigs=[["zzx1", 1]]), "missing-member")
        if pkind == "bundle" and e[0] in ("bun", "anon", "bref", "pref"):
            _, bp = refsem.iface(design, inst["of"])
            bname = bp[port]
            leaves = refsem.bundle_leaves(design, bname)
            if leaves:
                # an extra connection to the FLATTENED name of a member, next to the connection to the bundle port itself
                pth, lw = leaves[0]
                fname = refsem.flatname(port, *pth)
                sp0, bp0 = refsem.iface(design, inst["of"])
                if fname not in sp0 and fname not in bp0:
                    add("extra-connection-flattened-name", site, mutated(["sig", "zzfl"], extra_sigs=[["zzfl", lw]], add_port=fname), "extra-connection")
                # the bundle port left unconnected, and EVERY flattened name connected instead (ports the target does not have)
                fnames = [(refsem.flatname(port, *p_), w_) for p_, w_ in leaves]
                if all(fn not in sp0 and fn not in bp0 for fn, _ in fnames):
                    dfl = mutated(None, delete=True)
                    mmf = dfl["modules"][mi]
                    n_el = inst.get("n", 1) if inst.get("kind") == "array" else 1
                    for kf, (fn, w_) in enumerate(fnames):
                        mmf["sigs"].append([f"zzfn{kf}", w_])
                        mmf["insts"][ii]["conns"][fn] = ["sig", f"zzfn{kf}"]
                    add("flattened-names-instead-of-bundle", site, dfl, "extra-connection")
                    if inst["of"][0] == "mod":
                        # ... the same, with the child elaborated by an EARLIER call (its bundle ports are flattened in place by then)
                        dfe = copy.deepcopy(dfl)
                        dfe["pre_elaborate"] = [inst["of"][1]]
                        add("flattened-names-instead-of-bundle-child-elaborated", site, dfe, "extra-connection")
            if e[0] == "anon":
                # width mismatch inside an anonymous-bundle member, missing member, extra member
                k = sorted(e[1])[0]
                sub = e[1][k]
                if sub[0] not in ("bun", "anon", "nc") and not (sub[0] == "bref" and width_of(design, m, sub) is None):
                    e2 = copy.deepcopy(e)
                    e2[1][k] = ["cat", sub, ["sig", "zzx1"]]
                    add("width+1", f"anon-member/{inst.get('kind', 'single')}/depth{min(depth, 2)}", mutated(e2, extra_sigs=[["zzx1", 1]]), "width-mismatch")
                e3 = copy.deepcopy(e)
                e3[1].pop(k)
                add("missing-member", site, mutated(e3), "missing-member")
                # an unowned signal as the LAST member (the first ones being fine)
                kl = sorted(e[1])[-1]
                subl = e[1][kl]
                wl = width_of(design, m, subl) if subl[0] not in ("bun", "anon", "nc") else None
                if wl and list(e[1])[-1] == kl and len(e[1]) >= 2:
                    e8 = copy.deepcopy(e)
                    e8[1][kl] = ["orphan", wl]
                    add("orphan-member", site, mutated(e8))
                e4 = copy.deepcopy(e)
                e4[1]["zzextra"] = ["sig", "zzx1"]
                add("extra-member", site, mutated(e4, extra_sigs=[["zzx1", 1]]), "extra-connection")
                # an extra member NAMED like the joined path of a nested member (`tx_p` beside `tx.p`)
                deep = [pth for pth, _ in leaves if len(pth) >= 2]
                if deep and "_".join(deep[0]) not in e[1]:
                    e7 = copy.deepcopy(e)
                    e7[1]["_".join(deep[0])] = ["sig", "zzx1"]
                    add("extra-member-joined-name", site, mutated(e7, extra_sigs=[["zzx1", 1]]), "extra-connection")
            if e[0] == "bun":
                # a bundle instance of an incompatible type (one member one bit wider)
                add("bundle-type-mismatch", site, mutated(["bun", "zzbw"]) if False else None)
                add("foreign-bundle", site, mutated(["fbun", "__other__", "ob_" + bname]))
            if e[0] == "bref":
                add("missing-member", site, mutated(["bref", e[1], list(e[2]) + ["nomember"]]) if False else mutated(["bref", e[1], ["nomember"]]), "missing-member")
        # generic, for every connected port
        if e[0] != "nc":
            referenced = any(str(["pref", inst["name"], port]) in str(i2["conns"]) for i2 in m["insts"])
            if not referenced:
                add("dropped-connection", site, mutated(None, delete=True), "missing-connection")
                # ... and the designer LOOKS at the unconnected port (hasattr / print / a reference taken and not used): looking connects nothing
                dp = mutated(None, delete=True)
                dp["probe"] = [[m["name"], inst["name"], port]]
                add("dropped-connection-probed", site, dp, "missing-connection")
        add("extra-connection", site, mutated(["sig", "zzx1"], extra_sigs=[["zzx1", 1]], add_port="zznoport"), "extra-connection")
        if inst.get("kind", "single") == "single" and pkind == "scalar":
            others = [i2 for i2 in m["insts"] if i2 is not inst and i2.get("kind", "single") == "single"]
            if others:
                o = others[0]
                add("pref-missing-port", site, mutated(["pref", o["name"], "zznoport"]), "missing-port")
                # referenced no-connect: tie another instance's port to a no-connect and reference it from here
                osp, _ = refsem.iface(design, o["of"])
                sp, _ = refsem.iface(design, inst["of"])
                cands = [q for q, qw in osp.items() if qw == sp[port]]
                if cands:
                    d = mutated(["pref", o["name"], cands[0]])
                    d["modules"][mi]["insts"][m["insts"].index(o)]["conns"][cands[0]] = ["nc", 9999, None]
                    add("referenced-noconn", site, d, "noconn-referenced")
                    # ... and referenced indirectly: through a slice, inside a concatenation
                    qw = osp[cands[0]]
                    pr = ["pref", o["name"], cands[0]]
                    forms = {"sliced": ["slice", pr, [None, None, None]],
                             "cat": ["cat", pr] if qw == 1 else ["cat", ["slice", pr, [0, 1, None]], ["slice", pr, [1, qw, None]]],
                             "cat-mixed": ["cat", ["slice", pr, 0], ["sig", "zzx%d" % (qw - 1)]] if qw > 1 else None}
                    for fname, fe in forms.items():
                        if fe is None:
                            continue
                        d = mutated(fe, extra_sigs=[["zzx%d" % (qw - 1), qw - 1]] if fname == "cat-mixed" else ())
                        d["modules"][mi]["insts"][m["insts"].index(o)]["conns"][cands[0]] = ["nc", 9999, None]
                        add("referenced-noconn-" + fname, site, d, "noconn-referenced")
        # a no-connected port referenced as a member of an anonymous bundle
        if inst.get("kind", "single") == "single" and pkind == "bundle" and e[0] == "anon":
            others = [i2 for i2 in m["insts"] if i2 is not inst and i2.get("kind", "single") == "single"]
            k = sorted(e[1])[0]
            sub = e[1][k]
            wsub = width_of(design, m, sub) if sub[0] not in ("bun", "anon", "nc") else None
            for o in others:
                osp, _ = refsem.iface(design, o["of"])
                cands = [q for q, qw in osp.items() if qw == wsub]
                if cands:
                    e5 = copy.deepcopy(e)
                    e5[1][k] = ["pref", o["name"], cands[0]]
                    d = mutated(e5)
                    d["modules"][mi]["insts"][m["insts"].index(o)]["conns"][cands[0]] = ["nc", 9999, None]
                    add("referenced-noconn-anon", site, d, "noconn-referenced")
                    break
    # whole-design faults
    for mi, m in enumerate(design["modules"]):
        d = copy.deepcopy(design)
        d["modules"][mi]["name_override"] = None
        d["modules"][mi]["style"] = "proc"
        add("unnamed-module", f"module/depth{0 if m['name'] == design['top'] else 1}", d)
        d = copy.deepcopy(design)
        d["cycle"] = ["self", m["name"]]
        add("self-cycle", f"module/depth{0 if m['name'] == design['top'] else 1}", d)
    # a member of a Bundle definition RE-NAMED after it was added (to a fresh name, or to that of another member)
    used = {b[1] for m in design["modules"] for b in list(m.get("buns", [])) + list(m.get("bports", []))}
    for bname in sorted(used):
        bd = design["bundles"].get(bname) or {}
        if bd.get("builtin"):
            continue
        members = [s_[0] for s_ in bd.get("sigs", [])] + [s_[0] for s_ in bd.get("subs", [])]
        for k, mem in enumerate(members[:2]):
            for new in ["zzmember"] + [x for x in members if x != mem][:1]:
                d = copy.deepcopy(design)
                d["rename_member"] = [bname, mem, new]
                add("renamed-bundle-member", f"bundle/{'sig' if k < len(bd.get('sigs', [])) else 'sub'}/{'fresh' if new == 'zzmember' else 'clash'}", d)
    d = copy.deepcopy(design)
    d["extclash"] = True
    add("ext-name-clash", "module", d)
    # a Module and an ExternalModule under one qualified name: with a domain (the defining Python module's), and without
    for how in ("domain", "nodomain"):
        d = copy.deepcopy(design)
        d["modextclash"] = how
        add("mod-ext-name-clash", f"module/{how}", d)
    mods = [m["name"] for m in design["modules"]]
    if len(mods) >= 2:
        d = copy.deepcopy(design)
        d["cycle"] = ["two", mods[0], design["top"]]
        add("two-cycle", "module", d)
        d = copy.deepcopy(design)
        d["clash"] = [mods[0], mods[1]]
        add("name-clash", "module", d)
    out = [x for x in out if x[2] is not None]
    # cap per class, seeded
    by = {}
    for x in out:
        by.setdefault(x[0], []).append(x)
    res = []
    for cls, lst in by.items():
        rng.shuffle(lst)
        res += lst[:limit_per_class]
    return res


def build_mutant(design):
    """Build a (possibly ill-formed) design.  Knows the by-construction fault markers."""
    import hdl21 as h

    built = build.Built()
    built.uid = f"_{next(build._counter)}"
    # the "other" module that owns foreign objects
    other = h.Module(name=f"Other{built.uid}")
    for w in (1, 2, 3, 4, 5, 6):
        built.objs[("__other__", f"os{w}")] = other.add(h.Signal(width=w), name=f"os{w}")
    oi = other.add(h.Instance(of=build.leaf_call("E5", 77))(z=built.objs[("__other__", "os1")]), name="oi")
    built.objs[("__other__", "oi")] = oi
    for bname in design["bundles"]:
        try:
            built.objs[("__other__", "ob_" + bname)] = other.add(h.BundleInstance(of=build.build_bundle(design, bname, built)), name="ob_" + bname)
        except Exception:
            pass
    clash = design.get("clash")
    for ms in design["modules"]:
        ms2 = dict(ms)
        mb = build.ModBuilder(design, ms2, built)
        mb.declare()
        mb.connect_all()
        m = mb.finish()
        if "name_override" in ms:
            m.name = ms["name_override"]
        if clash and ms["name"] in clash:
            m.name = f"Clash{built.uid}"
    if design.get("extclash"):
        # two DIFFERENT external modules under one domain and name (another port order / width), both instantiated
        topm = built.modules[design["top"]]
        x1 = h.ExternalModule(name="ClashX", domain="hvclash", port_list=[h.Port(name="a"), h.Port(name="b")], paramtype=h.HasNoParams)
        x2 = h.ExternalModule(name="ClashX", domain="hvclash", port_list=[h.Port(name="b", width=2), h.Port(name="a"), h.Port(name="c")], paramtype=h.HasNoParams)
        s1 = topm.add(h.Signal(), name="zzc1")
        s2 = topm.add(h.Signal(width=2), name="zzc2")
        topm.add(x1()(a=s1, b=s1), name="zzx1")
        topm.add(x2()(a=s1, b=s2, c=s1), name="zzx2")
    if design.get("modextclash"):
        topm = built.modules[design["top"]]
        if design["modextclash"] == "domain":
            local = h.Module(name=f"ClashM{built.uid}")
            from hdl21.qualname import qualname as _qn
            dom = _qn(local).rsplit(".", 1)[0]
        else:
            ns = {}
            exec(f"import hdl21 as h\nM = h.Module(name='ClashM{built.uid}')\n", ns)
            local, dom = ns["M"], None
        local.add(h.Port(), name="a")
        xm = h.ExternalModule(name=f"ClashM{built.uid}", domain=dom, port_list=[h.Port(name="a"), h.Port(name="b")], paramtype=h.HasNoParams)
        s1 = topm.add(h.Signal(), name="zzc1")
        topm.add(local(a=s1), name="zzm1")
        topm.add(xm()(a=s1, b=s1), name="zzx1")
    for mname in design.get("pre_elaborate", []):
        try:
            h.elaborate(built.modules[mname])
        except Exception:
            pass
    for mname, attr, newname in design.get("rename", []):
        obj = built.objs.get((mname, attr))
        if obj is not None:
            obj.name = newname
    if design.get("rename_member"):
        bname, mem, new = design["rename_member"]
        bdef = built.bundles.get(bname)
        if bdef is not None and bdef is not h.Diff and mem in bdef.namespace:
            bdef.namespace[mem].name = new
    for mname, iname, port in design.get("probe", []):
        iobj = built.objs.get((mname, iname))
        if iobj is not None:
            hasattr(iobj, port)
            ref = getattr(iobj, port, None)
            repr(ref)
            try:
                ref[0]  # (a slice of the reference, thrown away)
            except Exception:
                pass
    disp = design.get("displace")
    if disp and disp[0] in built.modules:
        built.modules[disp[0]].add(h.Signal(width=disp[2]), name=disp[1])
    cyc = design.get("cycle")
    if cyc:
        if cyc[0] == "self":
            m = built.modules[cyc[1]]
            m.add(h.Instance(of=m), name="zzself")
        else:
            child, parent = built.modules[cyc[1]], built.modules[cyc[2]]
            child.add(h.Instance(of=parent), name="zzback")
    if clash:
        # make sure both clashing modules are instantiated below the top
        topm = built.modules[design["top"]]
        for n in clash:
            if built.modules[n] is not topm:
                pass
    built.top = built.modules[design["top"]]
    return built


def call_all(rec, cls, site, design, case):
    import hdl21 as h

    results = {}
    for call in ("elaborate", "to_proto", "netlist"):
        try:
            built = build_mutant(design)
        except Exception as e:
            results[call] = "raised-at-construction"
            rec.count("calls.raised")
            continue
        try:
            if call == "elaborate":
                h.elaborate(built.top)
            elif call == "to_proto":
                h.to_proto(built.top)
            else:
                h.netlist(built.top, io.StringIO(), fmt="spice")
            results[call] = "returned"
            rec.count("calls.returned")
        except Exception as e:
            results[call] = "raised"
            rec.count("calls.raised")
            rec.hist("rejections_by_exception", type(e).__name__)
    # retry on the SAME objects: after the first failure, neither the top nor any module holding the fault may be exported
    fm = design.get("fault_module")
    if fm:
        try:
            built = build_mutant(design)
            holders = [fm]
            grew = True
            while grew:
                grew = False
                for m in design["modules"]:
                    if m["name"] not in holders and any(i["of"] == ["mod", hname] for i in m["insts"] for hname in holders):
                        holders.append(m["name"])
                        grew = True
            try:
                h.elaborate(built.top)
                first = "returned"
            except Exception:
                first = "raised"
            for attempt, name in [("retry-top", design["top"])] + [("export-holder", n) for n in holders]:
                if name not in built.modules:
                    continue
                try:
                    h.to_proto(built.modules[name])
                    results[f"{attempt}-after-failure"] = "returned"
                    rec.count("calls.returned")
                except Exception:
                    rec.count("calls.raised")
                    rec.count("retries.raised")
        except Exception:
            pass
    rec.hist("matrix", f"{cls} @ {site}")
    ret = [c for c, r in results.items() if r == "returned" and not (cls in ("name-clash", "ext-name-clash", "mod-ext-name-clash") and c == "elaborate")]
    if ret:
        rec.violation(f"illformed-accepted:{cls}:{'+'.join(ret)}",
                      f"fault '{cls}' planted at site {site}: {', '.join(ret)} returned instead of raising", case=case,
                      fault=cls, site=site, calls="+".join(ret))


# -- builder extensions for the by-construction markers ------------------------------------------------------
_orig_expr = build.ModBuilder.expr


def _expr(self, e):
    k = e[0]
    if k == "fbun":
        return self.built.objs[(e[1], e[2])]
    if k == "pref_foreign":
        return getattr(self.built.objs[(e[1], e[2])], e[3])
    return _orig_expr(self, e)


build.ModBuilder.expr = _expr


UNGUARDED = ("retarget-after-success", "signal-width-after-success", "retarget", "signal-width")


def after_failed_parent(rec, label, design, skip=()):
    """History-dependent faults: a valid design's sub-modules also sit under ANOTHER parent whose elaboration fails very late (an
    unnamed module among its children is only found by the last pass).  Afterwards the designer adds a
    fault to a sub-module (or something that needs the early passes: an instance array).  Whatever is then exported for that
    sub-module must not be ill-formed: the addition is refused, or elaboration raises, or the package equals a fresh build's."""
    import hdl21 as h

    subs = [m["name"] for m in design["modules"] if m["name"] != design["top"]]
    if not subs:
        return
    for fault in ("width", "missing-port", "array", "foreign-signal", "reconnect-width", "disconnect", "reconnect-after-success", "disconnect-after-success",
                  "reconnect-by-replace-width", "reconnect-by-setattr-width", "reconnect-by-call-width",
                  "reconnect-by-replace-after-success", "reconnect-by-setattr-after-success", "reconnect-by-call-after-success",
                  "retarget-after-success", "signal-width-after-success", "retarget", "signal-width"):
        if fault in skip:
            continue
        try:
            built = build.build(copy.deepcopy(design))
        except Exception:
            return
        rec.count("history.after-failed-parent")
        case = {"kind": "after-failed-parent", "base": label, "fault": fault, "design": design}
        rec.case(key=jhash([label, "after-failed-parent", fault]), nontrivial=True, sample=None)
        bad = h.Module(name=f"LateBad_{next(build._counter)}")
        # its FIRST instance is of a module without a name: the very last pass (which names and marks modules) fails there, before it
        # reaches the sub-modules - they have been through every checking pass by then, and are not marked as elaborated
        bad.add(h.Instance(of=h.Module())(), name="a_anon")
        for k, n in enumerate(subs):
            sp, bp = refsem.iface(design, ["mod", n])
            bad.add(h.Instance(of=built.modules[n])(**{p: h.NoConn() for p in list(sp) + list(bp)}), name=f"u{k}")
        sub = built.modules[subs[-1]]
        if fault.endswith("-after-success"):
            # no failure at all: the sub-module is elaborated successfully, and its connections are edited afterwards
            try:
                h.elaborate(sub)
            except Exception:
                continue
        else:
            try:
                h.elaborate(bad)
                rec.count("history.late-parent-did-not-fail")
                continue
            except Exception:
                pass
        leaf = build.leaf_call("E2", 991)
        other = h.Module(name="OtherOwner")
        try:
            if fault == "width":
                w3 = sub.add(h.Signal(width=3), name="zz_w3")
                y1 = sub.add(h.Signal(), name="zz_y1")
                sub.add(h.Instance(of=leaf)(x=w3, y=y1), name="zz_bad")  # x is 2 wide
            elif fault == "missing-port":
                y1 = sub.add(h.Signal(), name="zz_y1")
                sub.add(h.Instance(of=leaf)(y=y1), name="zz_bad")
            elif fault == "array":
                x2 = sub.add(h.Signal(width=2), name="zz_x2")
                y1 = sub.add(h.Signal(), name="zz_y1")
                sub.add(h.InstanceArray(leaf, 2)(x=x2, y=y1), name="zz_arr")
            elif fault == "foreign-signal":
                fs = other.add(h.Signal(width=2), name="fs")
                y1 = sub.add(h.Signal(), name="zz_y1")
                sub.add(h.Instance(of=leaf)(x=fs, y=y1), name="zz_bad")
            else:
                # edit a connection of an existing instance: to a signal of another width (a fresh, foreign one will do: it is both
                # wider and not the module's), or remove it
                insts = [i for i in sub.instances.values() if i.conns]
                if not insts:
                    continue
                inst = insts[0]
                port = next(iter(inst.conns))
                if fault.startswith("retarget"):
                    # `inst.of` is an ordinary attribute: give the instance a target with another set of ports
                    have = set(getattr(inst.of, "ports", {}))
                    new_of = build.leaf_call("E5", 992) if have != {"z"} else build.leaf_call("E2", 992)
                    inst.of = new_of
                elif fault.startswith("signal-width"):
                    # `Signal.width` too: widen a signal that feeds a port
                    sigs = [c for c in inst.conns.values() if isinstance(c, h.Signal)]
                    if not sigs:
                        continue
                    sigs[0].width = sigs[0].width + 1
                elif fault.startswith("reconnect"):
                    w = getattr(inst.conns[port], "width", 1) or 1
                    fw = other.add(h.Signal(width=w + 1), name="fw")
                    if "-by-replace-" in fault:
                        inst.replace(port, fw)
                    elif "-by-setattr-" in fault:
                        setattr(inst, port, fw)
                    elif "-by-call-" in fault:
                        inst(**{port: fw})
                    else:
                        inst.connect(port, fw)
                else:
                    inst.disconnect(port)
        except Exception:
            rec.count("history.addition-refused")
            continue
        for call in ("elaborate", "to_proto"):
            try:
                if call == "elaborate":
                    h.elaborate(sub)
                    ret = None
                else:
                    ret = h.to_proto(sub)
            except Exception:
                rec.count("calls.raised")
                continue
            rec.count("calls.returned")
            if fault == "array":
                names = [i.name for i in ret.modules[-1].instances] if ret is not None else None
                if ret is None or any(n.startswith("zz_arr") for n in names):
                    continue  # a valid addition, elaborated properly
                what = f"the added instance array is missing from the exported package ({names})"
            else:
                what = "returned instead of raising"
            when = "after its own elaboration had succeeded" if fault.endswith("-after-success") else "after another parent's elaboration failed late"
            if fault in UNGUARDED:
                # edits through plain attributes (`inst.of = ...`, `sig.width = ...`): one mechanism, whatever the call and the moment
                attr = "of" if fault.startswith("retarget") else "width"
                rec.violation("illformed-accepted:unguarded-attribute-edit",
                              f"[{label}] {when}, sub-module {subs[-1]} was edited through the plain attribute `{attr}` "
                              f"({'an instance given a target with other ports' if attr == 'of' else 'a connected signal widened'}): {call} {what}",
                              case=case, attribute=attr)
                continue
            rec.violation(f"illformed-accepted:after-failed-parent:{fault}:{call}",
                          f"[{label}] {when}, a {fault} fault added to sub-module {subs[-1]}: {call} {what}",
                          case=case, fault=fault, calls=call)


def run(ctx, rec):
    rng = ctx.rng("c02")
    bases = [(l, d) for l, d in spec.structural_designs()]
    rng.shuffle(bases)
    bases = bases[: (40 if ctx.quick else 320)]
    for k in range(55 if ctx.quick else 640):
        bases.append((f"random #{k}", spec.random_design(rng, max_modules=3)))
    if ctx.nshards > 1:
        bases = bases[ctx.shard:: ctx.nshards]
    for _, base in bases:
        for m in base["modules"]:
            m.pop("pre_conns", None)  # (connections made first and replaced later are C01 / C04 material; here they would hide a dropped one)
    for k, (label, base) in enumerate(bases):
        if k % 4 == 0:
            after_failed_parent(rec, label, base)
    for label, base in bases:
        for cls, site, d, expect in mutations(base, rng, 2 if ctx.quick else 5):
            confirmed = True
            if cls not in BY_CONSTRUCTION:
                inv = refsem.validate(d)
                if inv is None:
                    rec.count("mutants.discarded-still-valid")
                    rec.hist("discarded_by_class", cls)
                    continue
                if expect and inv.cls != expect:
                    rec.hist("confirmed_with_other_reason", f"{cls}: {inv.cls}")
            rec.count("mutants.confirmed")
            case = {"kind": "mutant", "base": label, "fault": cls, "site": site, "design": d}
            rec.case(key=jhash(d), nontrivial=True, sample={"base": label, "fault": cls, "site": site} if rec.evaluations % 400 == 9 else None)
            call_all(rec, cls, site, d, case)
    rec.exhaustive = False


def shards(ctx):
    return 16


def replay(ctx, rec, case):
    if case.get("kind") == "after-failed-parent":
        after_failed_parent(rec, case["base"], case["design"])
        return
    if case["fault"] not in BY_CONSTRUCTION and refsem.validate(case["design"]) is None:
        rec.case(key=jhash(case["design"]), nontrivial=True, sample={"fault": case["fault"], "site": case["site"], "valid_by_reference": True})
        rec.count("mutants.discarded-still-valid")  # (the reference no longer calls this design ill-formed)
        rec.inconclusive.append("the witness design is valid by the reference semantics: nothing to decide")
        return
    rec.case(key=jhash(case["design"]), nontrivial=True, sample={"fault": case["fault"], "site": case["site"]})
    rec.count("mutants.confirmed")
    call_all(rec, case["fault"], case["site"], case["design"], case)
