"""
C03 -- indexing and concatenation follow Python sequence semantics.

Per case: a parent connectable of width w (Signal, Slice, Concat, PortRef, BundleRef; nested to depth 3) is
indexed, the public `.width` is asked, and the design is elaborated and exported with the indexed expression
feeding a leaf port; the bits that reach that port are read back with R2 and compared with Python list slicing.
Three outcomes: accepted-and-correct, rejected, wrong.  *wrong* is always a violation; *rejected* only where
the statement demands acceptance (in-range int; non-empty unit-step range with bounds in [-w, w]); an
out-of-range int or an empty selection must be rejected by creation, .width or elaboration.
M-slice contracts (hv.monitors.slicemon) judge every _slice_inner / width() / _resolve_sliceable call on the way.
"""

from __future__ import annotations

import copy
import itertools

from .. import build, oracle, pkgread, refsem
from ..monitors import slicemon
from ..runner import jhash

LEVEL = "exploration"
RULE = ("cases = (parent kind in {Signal, Slice, Concat2, Concat3, nested Concats, PortRef, PortRef-unconnected, BundleRef}) x parent width "
        "1..W x index: every int in [-2W, 2W] and every slice with start, stop in [-2W, 2W] + None, step in {None, +-1..+-W}; "
        "exhaustive for the Signal parent at W=3 (quick) / all parents at W=3 and Signal at W=5 (thorough), seeded samples "
        "elsewhere and for nesting depth 2..3 and wide buses; distinct = (parent kind, width, index chain); non-trivial = "
        "the index is not the identity [:]")
ASSUMPTIONS = [
    "expected selection = list(range(w))[index] (Python), bit i of the selection reaches bit i of the port",
    "acceptance is demanded only for in-range ints and non-empty unit-step ranges with explicit bounds in [-w, w]; "
    "other steps / out-of-range bounds may be rejected but never exported wrongly",
    "rejection may happen at creation, at .width or at elaboration/export",
    "top/bot/step are witness data only; deciding observables are .width and the exported bits",
]
REQUIRED_COUNTERS = ["M-slice.inner", "outcome.accepted-correct", "outcome.rejected-as-required"]
MIN_EVALS = 2000
MIN_NONTRIVIAL = 1500


def parent_expr(kind: str, w: int):
    """(expr, extra signals, extra instances, bundles) for a parent connectable of width w."""
    sigs, insts, buns, bdefs = [], [], [], {}
    if kind == "Signal":
        sigs.append(["par", w])
        e = ["sig", "par"]
    elif kind == "Slice":
        sigs.append(["big", w + 2])
        e = ["slice", ["sig", "big"], [1, 1 + w, None]]
    elif kind == "Concat2":
        if w == 1:
            sigs.append(["ca", 1])
            e = ["cat", ["sig", "ca"]]
        else:
            a = w // 2
            sigs += [["ca", a], ["cb", w - a]]
            e = ["cat", ["sig", "ca"], ["sig", "cb"]]
    elif kind == "Concat3":
        if w < 3:
            return parent_expr("Concat2", w)
        sigs += [["ca", 1], ["cb", w - 2], ["cc", 2]]
        e = ["cat", ["sig", "ca"], ["sig", "cb"], ["slice", ["sig", "cc"], 0]]
    elif kind in ("ConcatNestedL", "ConcatNestedR"):
        if w < 3:
            return parent_expr("Concat2", w)
        sigs += [["ca", 1], ["cb", w - 2], ["cc", 1]]
        e = ["cat", ["cat", ["sig", "ca"], ["sig", "cb"]], ["sig", "cc"]] if kind.endswith("L") else \
            ["cat", ["sig", "ca"], ["cat", ["sig", "cb"], ["sig", "cc"]]]
    elif kind == "PortRef":
        sigs.append(["par", w])
        insts.append({"name": "u", "kind": "single", "of": ["leaf", refsem.wleaf(w)], "tag": 7, "conns": {"p": ["sig", "par"]}})
        e = ["pref", "u", "p"]
    elif kind == "PortRef-unconnected":
        insts.append({"name": "u", "kind": "single", "of": ["leaf", refsem.wleaf(w)], "tag": 7, "conns": {}})
        e = ["pref", "u", "p"]
    elif kind == "PortRef-bref":
        # a port reference whose port is tied to a bundle member (still a reference when slices are resolved)
        bdefs[f"BW{w}"] = {"sigs": [["m", w, "sig"], ["k", 1, "sig"]], "subs": [], "roles": None}
        buns.append(["bb", f"BW{w}"])
        insts.append({"name": "u", "kind": "single", "of": ["leaf", refsem.wleaf(w)], "tag": 7, "conns": {"p": ["bref", "bb", ["m"]]}})
        insts.append({"name": "uk", "kind": "single", "of": ["leaf", refsem.wleaf(1)], "tag": 9, "conns": {"p": ["bref", "bb", ["k"]]}})
        e = ["pref", "u", "p"]
    elif kind == "PortRef-slice":
        sigs.append(["big", w + 2])
        insts.append({"name": "u", "kind": "single", "of": ["leaf", refsem.wleaf(w)], "tag": 7, "conns": {"p": ["slice", ["sig", "big"], [1, 1 + w, None]]}})
        e = ["pref", "u", "p"]
    elif kind == "PortRef-cat":
        if w < 2:
            return parent_expr("PortRef", w)
        sigs += [["ca", 1], ["cb", w - 1]]
        insts.append({"name": "u", "kind": "single", "of": ["leaf", refsem.wleaf(w)], "tag": 7, "conns": {"p": ["cat", ["sig", "ca"], ["sig", "cb"]]}})
        e = ["pref", "u", "p"]
    elif kind == "PortRef-chain":
        # u2.p is tied to the reference u.p, which is tied to nothing else: the slice's parent is a reference to a reference
        insts.append({"name": "u", "kind": "single", "of": ["leaf", refsem.wleaf(w)], "tag": 7, "conns": {}})
        insts.append({"name": "u2", "kind": "single", "of": ["leaf", refsem.wleaf(w)], "tag": 6, "conns": {"p": ["pref", "u", "p"]}})
        e = ["pref", "u2", "p"]
    elif kind == "PortRef-array-each":
        # a reference into an instance array stands for the port's whole connection: n chunks, element 0 lowest
        if w < 2:
            return parent_expr("PortRef", w)
        n, k = (2, w // 2) if w % 2 == 0 else (w, 1)
        sigs.append(["par", w])
        insts.append({"name": "u", "kind": "array", "n": n, "of": ["leaf", refsem.wleaf(k)], "tag": 7, "conns": {"p": ["sig", "par"]}})
        e = ["pref", "u", "p"]
    elif kind == "PortRef-array-unconnected":
        # ... and an unconnected array port that is referenced gets one signal of the port's width, shared by the elements
        insts.append({"name": "u", "kind": "array", "n": 2, "of": ["leaf", refsem.wleaf(w)], "tag": 7, "conns": {}})
        e = ["pref", "u", "p"]
    elif kind == "PortRef-array-broadcast":
        sigs.append(["par", w])
        insts.append({"name": "u", "kind": "array", "n": 2, "of": ["leaf", refsem.wleaf(w)], "tag": 7, "conns": {"p": ["sig", "par"]}})
        e = ["pref", "u", "p"]
    elif kind == "BundleRef":
        bdefs[f"BW{w}"] = {"sigs": [["m", w, "sig"], ["k", 1, "sig"]], "subs": [], "roles": None}
        buns.append(["bb", f"BW{w}"])
        insts.append({"name": "ub", "kind": "single", "of": ["leaf", refsem.wleaf(w)], "tag": 8, "conns": {"p": ["bref", "bb", ["m"]]}})
        insts.append({"name": "uk", "kind": "single", "of": ["leaf", refsem.wleaf(1)], "tag": 9, "conns": {"p": ["bref", "bb", ["k"]]}})
        e = ["bref", "bb", ["m"]]
    else:
        raise ValueError(kind)
    return e, sigs, insts, buns, bdefs


def py_select(w: int, chain):
    """(selection as list of parent bit indices | None if some step is out of range, classification)"""
    bits = list(range(w))
    must_accept = True
    for index in chain:
        n = len(bits)
        if isinstance(index, int):
            if not (-n <= index < n):
                return None, "must-reject"
            bits = [bits[index]]
        else:
            start, stop, step = index
            if step == 0:
                return None, "must-reject"
            inb = all(b is None or -n <= b <= n for b in (start, stop))
            sel = bits[slice(start, stop, step)]
            if not sel:
                return None, "must-reject"
            if not inb:
                must_accept = False
            bits = sel
    return bits, ("must-accept" if must_accept else "reject-or-correct")


def make_design(kind: str, w: int, chain, nsel: int, arrays: bool = True):
    e, sigs, insts, buns, bdefs = parent_expr(kind, w)
    expr = e
    for index in chain:
        expr = ["slice", expr, index]
    insts = list(insts)
    insts.append({"name": "d", "kind": "single", "of": ["leaf", refsem.wleaf(max(nsel, 1))], "tag": 1, "conns": {"p": expr}})
    # the same expression split across the elements of instance arrays (one bit, two bits per element)
    if arrays and nsel >= 2:
        insts.append({"name": "da", "kind": "array", "n": nsel, "of": ["leaf", refsem.wleaf(1)], "tag": 2, "conns": {"p": copy.deepcopy(expr)}})
        if nsel % 2 == 0 and nsel >= 4:
            insts.append({"name": "db", "kind": "array", "n": nsel // 2, "of": ["leaf", refsem.wleaf(2)], "tag": 3,
                          "conns": {"p": copy.deepcopy(expr)}})
    # observers so that every bit of the root signals is a leaf terminal
    for s in sigs:
        insts.append({"name": f"o_{s[0]}", "kind": "single", "of": ["leaf", refsem.wleaf(s[1])], "tag": 20,
                      "conns": {"p": ["sig", s[0]]}})
    top = {"name": "X", "style": "proc", "ports": [], "bports": [], "sigs": sigs, "buns": buns, "insts": insts}
    return {"bundles": bdefs, "modules": [top], "top": "X", "lenient_bounds": True}


def judge_case(rec, kind: str, w: int, chain, sample=False, peek=True, w_before=None):
    """`peek`: ask the expression for its width before elaboration (the outcome must not depend on having looked).
    `w_before`: the parent's signals first have the widths of a parent of width `w_before`; the expression is created (and, with
    `peek`, looked at) then, and the signals are edited to their final widths before the design is elaborated: the design that
    counts is the final one."""
    import hdl21 as h

    sel, cls = py_select(w, chain)
    key = (kind, w, tuple(tuple(i) if isinstance(i, list) else i for i in chain), peek, w_before)
    trivial = all((not isinstance(i, int)) and i[0] is None and i[1] is None and i[2] in (None, 1) for i in chain)
    rec.case(key=str(key), nontrivial=not trivial,
             sample={"parent": kind, "width": w, "index_chain": chain, "python_selects": sel, "class": cls} if sample else None)
    rec.hist("cases_by_parent", kind)
    rec.hist("cases_by_class", cls)
    case = {"kind": "index", "parent": kind, "w": w, "chain": chain, "peek": peek, "w_before": w_before}
    if w_before is not None:
        rec.count("history.width-edited")
    rec.count("driver.width-asked-first" if peek else "driver.width-not-asked")
    desc = ("" if peek else "(width not asked before elaboration) ") + (f"(parent width {w_before} when the expression was created"
            f"{' and looked at' if peek else ''}, then edited) " if w_before is not None else "") + f"{kind}(w={w})" + "".join(f"[{i}]" if isinstance(i, int) else "[" + ":".join("" if x is None else str(x) for x in i) + "]" for i in chain)
    nsel = len(sel) if sel else 1
    design = make_design(kind, w, chain, nsel)
    stage = "create"
    top = conn = None
    try:
        built = build.Built()
        built.uid = f"_{next(build._counter)}"
        mb = build.ModBuilder(design, design["modules"][0], built)
        mb.declare()
        final_widths = {}
        if w_before is not None:
            for name, wb in parent_expr(kind, w_before)[1]:
                final_widths[name] = mb.attrs[name].width
                mb.attrs[name].width = wb
        mb.connect_all()  # creation of the Slice objects
        conn = mb.insts["d"].conns["p"]
        stage = "width"
        if w_before is not None:
            try:
                _ = conn.width if peek and hasattr(conn, "width") else None
            except Exception:
                pass  # (not in range for the earlier width: the designer shrugs and fixes the width)
            for name, wf in final_widths.items():
                mb.attrs[name].width = wf
        got_w = conn.width if peek and hasattr(conn, "width") else None
        if got_w is not None and sel is not None and got_w != len(sel):
            rec.violation("reported-width-wrong", f"{desc}.width == {got_w}, Python selects {len(sel)} bit(s)", case=case,
                          parent=kind)
        stage = "elaborate"
        top = mb.finish()
        pkg = h.to_proto(top)
    except Exception as e:
        # rejected
        rec.hist("rejected_at", stage)
        if cls == "must-reject" and stage != "create":
            # a rejection must not depend on how often the expression was looked at before
            rec.count("driver.reprobe")
            try:
                again = (conn.width, top if top is not None else mb.finish())
                pkg2 = h.to_proto(again[1])
                rec.violation("rejection-not-stable",
                              f"{desc} was rejected at {stage} ({oracle.exc_sig(e)}), but asking again reported width {again[0]} "
                              f"and elaboration of the same design then returned a package", case=case, parent=kind)
            except Exception:
                pass
        if cls == "must-accept":
            rec.count("outcome.rejected-but-must-accept")
            rec.violation(f"valid-index-rejected:{kind}",
                          f"{desc} is in range (Python selects bits {sel}) but was rejected at {stage}: {oracle.exc_sig(e)}",
                          case=case, parent=kind, stage=stage)
        elif cls == "must-reject":
            rec.count("outcome.rejected-as-required")
        else:
            rec.count("outcome.rejected-optional")
        return
    # a package was returned
    if cls == "must-reject":
        rec.count("outcome.accepted-but-must-reject")
        rec.violation("invalid-index-accepted",
                      f"{desc} selects no bit / is out of range in Python, yet elaboration and export returned a package",
                      case=case, parent=kind)
        return
    try:
        ref = refsem.flatten(design)
        obs = pkgread.flatten(pkg)
        diffs = pkgread.compare(ref, obs)
    except (pkgread.ReadError, refsem.Invalid) as e:
        diffs = [f"package unreadable: {e}"]
    if diffs:
        rec.count("outcome.wrong")
        rec.violation("exported-bits-wrong", f"{desc}: Python selects parent bits {sel}; exported circuit differs: " + "; ".join(diffs[:2]),
                      case=case, parent=kind)
    else:
        rec.count("outcome.accepted-correct")


def sequence_probes(rec):
    """(a) the index of a Slice is edited after the slice was looked at: the final index counts; (b) iterating a connectable of width w
    yields its w bits, bit i selecting exactly bit i (taken with islice, so that a never-ending iteration is seen, not waited for)."""
    import hdl21 as h
    import itertools as it
    from .. import pkgread

    def exported_bits(m, instname="d"):
        pkg = h.to_proto(m)
        flat = pkgread.flatten(pkg)
        return flat

    for w in (3, 4, 6):
        for first, second, peek in ((0, [1, 3, None], True), ([0, 2, None], -1, True), (1, [None, None, -1], True), (0, [1, 3, None], False)):
            rec.count("history.index-edited")
            case = {"kind": "index-edit", "w": w, "first": first, "second": second, "peek": peek}
            rec.case(key=jhash(case), nontrivial=True, sample=None)
            sel, cls = py_select(w, [second])
            design = make_design("Signal", w, [second], len(sel), arrays=False)
            try:
                built = build.Built()
                built.uid = f"_{next(build._counter)}"
                mb = build.ModBuilder(design, design["modules"][0], built)
                mb.declare()
                mb.connect_all()
                sl = mb.insts["d"].conns["p"]
                # (built with the final index; now replay the history on the live Slice: first index, a look, then the final one)
                final_index = sl.index
                sl.index = first if isinstance(first, int) else slice(*first)
                sl._inner = None
                if peek:
                    _ = (sl.width, sl.top, sl.bot)
                sl.index = final_index
                got_w = sl.width
                if got_w != len(sel):
                    rec.violation("reported-width-wrong", f"Signal(w={w}): a slice made as [{first}], looked at, then given the index {second} reports width {got_w}; "
                                                          f"Python selects {len(sel)} bit(s)", case=case, parent="Signal")
                    continue
                pkg = h.to_proto(mb.finish())
                diffs = pkgread.compare(refsem.flatten(design), pkgread.flatten(pkg))
            except Exception as e:
                rec.violation("valid-index-rejected:Signal", f"Signal(w={w}): slice index edited from {first} to {second} (peek={peek}) raised {oracle.exc_sig(e)[:120]}", case=case, parent="Signal", stage="edit")
                continue
            if diffs:
                rec.violation("exported-bits-wrong", f"Signal(w={w}): slice index edited from {first} to {second} after a look: " + "; ".join(diffs[:2]), case=case, parent="Signal")
    # the index assigned twice after a look, with throw-away slice objects (an address-keyed cache sees the freed one again)
    for w, first, mid, last in ((8, [0, 2, None], [6, 8, None], [3, 5, None]), (6, [0, 1, None], [4, 6, None], [2, 5, None]), (8, [1, 2, None], [5, 8, None], [0, 3, None])):
        rec.count("history.index-edited")
        case = {"kind": "index-edit-twice", "w": w, "indices": [first, mid, last]}
        rec.case(key=jhash(case), nontrivial=True, sample=None)
        sel, _ = py_select(w, [last])
        design = make_design("Signal", w, [last], len(sel), arrays=False)
        try:
            built = build.Built()
            built.uid = f"_{next(build._counter)}"
            mb = build.ModBuilder(design, design["modules"][0], built)
            mb.declare()
            mb.connect_all()
            sl = mb.insts["d"].conns["p"]
            sl.index = slice(*first)
            sl._inner = None
            _ = sl.width
            sl.index = slice(*mid)
            sl.index = slice(*last)
            if sl.width != len(sel):
                rec.violation("reported-width-wrong", f"Signal(w={w}): a slice made as {first}, looked at, then given the indices {mid} and {last} reports width {sl.width}; "
                                                      f"Python selects {len(sel)} bit(s)", case=case, parent="Signal")
                continue
            diffs = pkgread.compare(refsem.flatten(design), pkgread.flatten(h.to_proto(mb.finish())))
        except Exception as e:
            rec.violation("valid-index-rejected:Signal", f"Signal(w={w}): slice index edited twice raised {oracle.exc_sig(e)[:120]}", case=case, parent="Signal", stage="edit")
            continue
        if diffs:
            rec.violation("exported-bits-wrong", f"Signal(w={w}): slice made as {first}, looked at, then given {mid} and {last}: " + "; ".join(diffs[:2]), case=case, parent="Signal")
    # two slices taken with the SAME index from one parent are two objects: editing one leaves the other where it was
    for w in (8, 6):
        rec.count("history.index-edited")
        case = {"kind": "two-slices-one-index", "w": w}
        rec.case(key=jhash(case), nontrivial=True, sample=None)
        try:
            m = h.Module(name=f"TwoSl{next(build._counter)}")
            bus = m.add(h.Signal(width=w), name="bus")
            a, b = bus[0:2], bus[0:2]
            _ = (a.width, b.width)
            b.index = slice(w - 2, w)
            leaf = build.leaf_call(refsem.wleaf(2), 61)
            m.add(h.Instance(of=leaf)(p=a), name="ia")
            m.add(h.Instance(of=build.leaf_call(refsem.wleaf(2), 62))(p=b), name="ib")
            m.add(h.Instance(of=build.leaf_call(refsem.wleaf(w), 63))(p=bus), name="ob")
            pkg = h.to_proto(m)
            got = {}
            for inst in pkg.modules[-1].instances:
                for c in inst.connections:
                    if c.target.WhichOneof("stype") == "slice":
                        got[inst.name] = (c.target.slice.bot, c.target.slice.top)
        except Exception as e:
            rec.violation("valid-index-rejected:Signal", f"two slices bus[0:2] of one {w}-bit signal, one edited to the top two bits: {oracle.exc_sig(e)[:120]}", case=case, parent="Signal", stage="edit")
            continue
        if got.get("ia") != (0, 1) or got.get("ib") != (w - 2, w - 1):
            rec.violation("exported-bits-wrong", f"two slices bus[0:2] of one {w}-bit signal, the second edited to [{w - 2}:{w}]: exported (bot, top) {got}; "
                                                 f"expected ia (0, 1), ib ({w - 2}, {w - 1})", case=case, parent="Signal")
    # iteration
    for w in (1, 3, 5):
        m = h.Module(name=f"IterProbe{next(build._counter)}")
        s_ = m.add(h.Signal(width=w), name="s")
        t_ = m.add(h.Signal(width=w), name="t")
        for what, obj in (("Signal", s_), ("Slice", s_[0:w]), ("Concat", h.Concat(s_[0:1], t_[1:w]) if w > 1 else h.Concat(s_))):
            rec.count("probe.iteration")
            case = {"kind": "iteration", "what": what, "w": w}
            try:
                bits = list(it.islice(iter(obj), w + 3))
            except Exception as e:
                rec.violation("iteration-raises", f"iterating a {what} of width {w} raised {type(e).__name__}: {str(e)[:80]}", case=case)
                continue
            if len(bits) != w:
                rec.violation("iteration-length-wrong", f"iterating a {what} of width {w} yields {'at least ' if len(bits) == w + 3 else ''}{len(bits)} items", case=case)
                continue
            try:
                idx = [(b.top, b.bot, b.width) for b in bits]
            except Exception as e:
                rec.violation("iteration-raises", f"bits of a {what} of width {w}: {type(e).__name__}", case=case)
                continue
            if idx != [(i + 1, i, 1) for i in range(w)]:
                rec.violation("iteration-bits-wrong", f"iterating a {what} of width {w} yields slices {idx}", case=case)


def all_indices(W: int, w: int):
    rng_ = list(range(-2 * W, 2 * W + 1))
    for i in rng_:
        yield i
    bounds = [None] + rng_
    steps = [None] + [s for k in range(1, W + 1) for s in (k, -k)]
    for a, b, s in itertools.product(bounds, bounds, steps):
        yield [a, b, s]


KINDS = ["Signal", "Slice", "Concat2", "Concat3", "ConcatNestedL", "ConcatNestedR", "PortRef", "PortRef-unconnected", "BundleRef",
         "PortRef-array-each", "PortRef-array-unconnected", "PortRef-array-broadcast", "PortRef-bref", "PortRef-slice", "PortRef-cat", "PortRef-chain"]


def rand_index(rng, W, n):
    """A random index for a parent of width n: biased to valid ones."""
    x = rng.random()
    if x < 0.25:
        return rng.randint(-n, n - 1) if rng.random() < 0.85 else rng.randint(-2 * W, 2 * W)
    if x < 0.45 and n >= 2:
        # backward and strided ranges that select several bits (random bounds with a negative step rarely do)
        return rng.choice([[None, None, -1], [None, None, -2], [n - 1, None, -1], [None, 0, -1], [-1, -n - 1, -1], [n - 1, 0, -1], [-1, None, -1],
                           [None, None, 2], [1, None, 2], [None, -1, 2], [n - 1, None, -2], [None, 1 - n, -1]])
    a = rng.choice([None] + list(range(-n, n + 1))) if rng.random() < 0.85 else rng.randint(-2 * W, 2 * W)
    b = rng.choice([None] + list(range(-n, n + 1))) if rng.random() < 0.85 else rng.randint(-2 * W, 2 * W)
    s = rng.choice([None, None, 1, 1, -1, 2, -2, 3])
    return [a, b, s]


def run(ctx, rec):
    slicemon.attach(rec)
    rng = ctx.rng("c03")
    cases = []
    W = 3
    # exhaustive depth-1 boxes
    boxes = [("Signal", 3)] if ctx.quick else [(k, 3) for k in KINDS] + [("Signal", 5)]
    done_boxes = []
    for kind, Wb in boxes:
        for w in range(1, Wb + 1):
            for idx in all_indices(Wb, w):
                cases.append((kind, w, [idx]))
        done_boxes.append(f"{kind} W={Wb}")
    rec.extra["exhaustive_boxes"] = done_boxes
    # every parent kind, whole and reversed (the whole parent reaches the port as it is, without being taken apart bit by bit)
    for kind in KINDS:
        for w in (1, 2, 3, 4, 5):
            for idx in ([None, None, None], [None, None, -1], [0, w, None], [-w, None, 1]):
                cases.append((kind, w, [idx]))
    # sampled depth-1 for the other parents (quick), depth 2..3, and wide buses
    n_s1 = 2500 if ctx.quick else 16000
    for _ in range(n_s1):
        kind = rng.choice(KINDS[1:])
        w = rng.randint(1, W + (0 if ctx.quick else 2))
        cases.append((kind, w, [rand_index(rng, W, w)]))
    n_deep = 2500 if ctx.quick else 64000
    for _ in range(n_deep):
        kind = rng.choice(KINDS)
        w = rng.randint(2, 6 if ctx.quick else 8)
        chain = []
        n = w
        for d in range(rng.randint(2, 3)):
            idx = rand_index(rng, w, n)
            chain.append(idx)
            sel, _ = py_select(n, [idx])
            n = len(sel) if sel else 1
        cases.append((kind, w, chain))
    for _ in range(300 if ctx.quick else 9600):
        w = rng.randint(9, 32)
        cases.append((rng.choice(KINDS), w, [rand_index(rng, w, w)]))
    if ctx.nshards > 1:
        cases = cases[ctx.shard:: ctx.nshards]
    for k, (kind, w, chain) in enumerate(cases):
        judge_case(rec, kind, w, chain, sample=(k % 1500 == 7))
        if k % 5 == 0 or (kind.startswith("PortRef") and k % 2 == 0):
            judge_case(rec, kind, w, chain, peek=False)
        if k % 4 == 1 and kind in ("Signal", "Slice", "Concat2") and w >= 2:
            # the same final design, reached by editing signal widths after the expression was created (and looked at)
            wb = [x for x in range(2, w + 4) if x != w][(k // 4) % (w + 1)]
            judge_case(rec, kind, w, chain, peek=(k % 8 == 1), w_before=wb)
    if ctx.shard == 0:
        sequence_probes(rec)
    if not ctx.quick and ctx.shard == 0:
        from .. import suite

        suite.run_suite(rec, "slice", ["slice-", "width-", "resolve-", "reported-"])
    rec.exhaustive = False
    rec.extra["explanation_exhaustive"] = "the boxes listed under exhaustive_boxes are enumerated completely; the rest is sampled"


def shards(ctx):
    return 16


def replay(ctx, rec, case):
    slicemon.attach(rec)
    if case.get("kind") == "index":
        judge_case(rec, case["parent"], case["w"], case["chain"], sample=True, peek=case.get("peek", True), w_before=case.get("w_before"))
    elif case.get("kind") == "width":
        judge_case(rec, case.get("parent", "Signal"), case["pw"], [case["index"]], sample=True)
    else:
        rec.inconclusive.append("this witness carries only a description; re-run the check to reproduce")
