"""
C07 -- elaboration results do not depend on elaboration history.

History + executable model: the model is "the exported package is a function of the design alone".  A history of
`elaborate` / `to_proto` / `netlist` calls (single modules or lists, any order, repeated, sub-modules built and
elaborated before their parents even exist) is replayed on one build of a design; every package it produces is compared
with the package of a FRESH build of the same design that sees only that one call (in-process; and in a fresh process
for a sample).  Packages are compared after sorting each instance's connections by port name: connection ORDER varying
with memory addresses is C12's subject.
"""

from __future__ import annotations

import copy
import io
import itertools
import json
import subprocess
import sys

from .. import build, env, oracle, refsem, spec
from ..runner import jhash

LEVEL = "exploration"
RULE = ("histories over design DAGs of <= 5 modules with shared sub-modules, bundle-valued ports, port references and anonymous "
        "bundles: every permutation of single-module elaborate calls over every subset (exhaustive, sum P(n,k)), every ordered "
        "subset as ONE list call, the same with to_proto / netlist in place of elaborate (seeded), repeated calls, and 'late "
        "parent' histories in which parents are only constructed after their children were elaborated or exported; the final "
        "to_proto(top) and every intermediate single-module to_proto are compared with a fresh build. distinct = (design, "
        "history); non-trivial = the history touches a sub-module before the final call")
ASSUMPTIONS = [
    "two builds of one DesignSpec with the same uid are 'the same design' (same names, fresh objects)",
    "comparison is on packages with per-instance connections sorted by port name; raw-unequal-but-canonically-equal is counted",
]
REQUIRED_COUNTERS = ["history.calls", "additions.attempted", "compare.final", "compare.intermediate", "compare.intermediate-list", "compare.final-list", "late-parent.histories"]
MIN_EVALS = 1000
MIN_NONTRIVIAL = 800


def canon(pkg) -> bytes:
    import vlsir.circuit_pb2 as vckt

    p = vckt.Package()
    p.CopyFrom(pkg)
    for m in p.modules:
        for i in m.instances:
            conns = sorted(i.connections, key=lambda c: c.portname)
            del i.connections[:]
            i.connections.extend(conns)
    return p.SerializeToString(deterministic=True)


def fixed_designs():
    """Hand-written 5-module DAGs with shared sub-modules, bundle ports, port refs, anonymous bundles."""
    B = copy.deepcopy(spec.BUNDLES)
    S = lambda n: ["sig", n]
    leafA = {"name": "LA", "style": "proc", "ports": [["a", 2, "in"], ["b", 1, "out"]], "bports": [["bp", "B1", False, None]], "sigs": [], "buns": [],
             "insts": [{"name": "e", "kind": "single", "of": ["leaf", "E2"], "tag": 1, "conns": {"x": S("a"), "y": S("b")}},
                       {"name": "f", "kind": "single", "of": ["leaf", "E2"], "tag": 2, "conns": {"x": ["bref", "bp", ["y"]], "y": ["bref", "bp", ["x"]]}}]}
    leafB = {"name": "LB", "style": "class", "ports": [["p", 1, "inout"]], "bports": [["q", "B3", True, None]], "sigs": [["m", 1]], "buns": [],
             "insts": [{"name": "r", "kind": "single", "of": ["leaf", "R"], "tag": 3, "conns": {"p": S("p"), "n": ["bref", "q", ["z"]]}},
                       {"name": "g", "kind": "single", "of": ["leaf", "E2"], "tag": 4, "conns": {"x": ["bref", "q", ["lo", "y"]], "y": ["bref", "q", ["hi", "x"]]}},
                       {"name": "h", "kind": "single", "of": ["leaf", "E2"], "tag": 5, "conns": {"x": ["bref", "q", ["hi", "y"]], "y": ["bref", "q", ["lo", "x"]]}}]}
    mid0 = {"name": "M0", "style": "proc", "ports": [["k", 1, "none"]], "bports": [["mb", "B1", False, None]], "sigs": [["w", 2]], "buns": [["b3", "B3"]],
            "insts": [{"name": "a0", "kind": "single", "of": ["mod", "LA"], "tag": None, "conns": {"a": S("w"), "b": S("k"), "bp": ["bun", "mb"]}},
                      {"name": "a1", "kind": "single", "of": ["mod", "LA"], "tag": None, "conns": {"a": ["pref", "a0", "a"], "b": ["pref", "b0", "p"], "bp": ["bref", "b3", ["lo"]]}},
                      {"name": "b0", "kind": "single", "of": ["mod", "LB"], "tag": None, "conns": {"q": ["bun", "b3"]}}]}
    mid1 = {"name": "M1", "style": "gen", "ports": [["k", 1, "none"]], "bports": [], "sigs": [["x1", 1], ["y2", 2]], "buns": [],
            "insts": [{"name": "a0", "kind": "single", "of": ["mod", "LA"], "tag": None,
                       "conns": {"a": S("y2"), "b": S("k"), "bp": ["anon", {"x": S("x1"), "y": S("y2")}]}},
                      {"name": "arr", "kind": "array", "n": 2, "of": ["mod", "LA"], "tag": None,
                       "conns": {"a": S("y2"), "b": S("k"), "bp": ["pref", "a0", "bp"]}}]}
    top = {"name": "TT", "style": "proc", "ports": [], "bports": [], "sigs": [["k", 1]], "buns": [["tb", "B1"], ["t3", "B3"]],
           "insts": [{"name": "m0", "kind": "single", "of": ["mod", "M0"], "tag": None, "conns": {"k": S("k"), "mb": ["bun", "tb"]}},
                     {"name": "m1", "kind": "single", "of": ["mod", "M1"], "tag": None, "conns": {"k": ["pref", "lb", "p"]}},
                     {"name": "lb", "kind": "single", "of": ["mod", "LB"], "tag": None, "conns": {"q": ["bun", "t3"]}},
                     {"name": "la", "kind": "single", "of": ["mod", "LA"], "tag": None, "conns": {"a": ["bref", "t3", ["hi", "y"]], "b": S("k"), "bp": ["bref", "t3", ["lo"]]}},
                     # bundle-valued ports left open
                     {"name": "lbo", "kind": "single", "of": ["mod", "LB"], "tag": None, "conns": {"p": S("k"), "q": ["nc", 71, None]}},
                     {"name": "lao", "kind": "single", "of": ["mod", "LA"], "tag": None, "conns": {"a": ["nc", 72, None], "b": ["nc", 73, "open_b"], "bp": ["nc", 74, None]}}]}
    yield "fixed-5", {"bundles": B, "modules": [leafA, leafB, mid0, mid1, top], "top": "TT"}
    # a chain of 4 with a bundle port passed through every level
    mods = []
    prev = None
    for k in range(4):
        insts = []
        if prev is None:
            insts.append({"name": "e", "kind": "single", "of": ["leaf", "E2"], "tag": 10, "conns": {"x": ["bref", "bp", ["y"]], "y": ["bref", "bp", ["x"]]}})
        else:
            insts.append({"name": "c0", "kind": "single", "of": ["mod", prev], "tag": None, "conns": {"bp": ["bun", "bp"]}})
            insts.append({"name": "c1", "kind": "single", "of": ["mod", prev], "tag": None, "conns": {"bp": ["pref", "c0", "bp"]} if k % 2 else {"bp": ["bun", "bp"]}})
        mods.append({"name": f"C{k}", "style": ["proc", "class", "gen", "proc"][k], "ports": [], "bports": [["bp", "B1", k == 2, None]], "sigs": [], "buns": [], "insts": insts})
        prev = f"C{k}"
    topc = {"name": "CT", "style": "proc", "ports": [], "bports": [], "sigs": [], "buns": [["b", "B1"]],
            "insts": [{"name": "t0", "kind": "single", "of": ["mod", "C3"], "tag": None, "conns": {"bp": ["bun", "b"]}},
                      {"name": "t1", "kind": "single", "of": ["mod", "C1"], "tag": None, "conns": {"bp": ["anon", {"x": ["bref", "b", ["x"]], "y": ["bref", "b", ["y"]]}]}},
                      {"name": "t2", "kind": "single", "of": ["mod", "C2"], "tag": None, "conns": {"bp": ["nc", 75, None]}}]}
    yield "chain-5", {"bundles": B, "modules": mods + [topc], "top": "CT"}


class Session:
    """One build of a design, possibly constructed in stages, on which a history is replayed."""

    def __init__(self, design, uid):
        self.design, self.built = design, build.Built()
        self.built.uid = uid
        self.done = set()

    def ensure(self, names):
        for ms in self.design["modules"]:
            if ms["name"] in names and ms["name"] not in self.done:
                # children first
                deps = [i["of"][1] for i in ms["insts"] if i["of"][0] == "mod"]
                self.ensure(deps)
                mb = build.ModBuilder(self.design, ms, self.built)
                mb.declare()
                mb.connect_all()
                mb.finish()
                self.done.add(ms["name"])

    def mods(self, names):
        self.ensure(names)
        return [self.built.modules[n] for n in names]


def do_call(sess, kind, names):
    import hdl21 as h

    ms = sess.mods(names)
    if kind == "samename":
        # ANOTHER design of the process holds modules with the same NAMES (and same-named bundle ports of another bundle type)
        ob = h.Bundle(name=f"OtherB_{next(build._counter)}")
        ob.add(h.Signal(width=2), name="u")
        ob.add(h.Signal(), name="v")
        fp = h.Module(name=f"SameNameParent_{next(build._counter)}")
        for k, m in enumerate(ms):
            sp, bp = refsem.iface(sess.design, ["mod", names[k]])
            f = h.Module(name=m.name)
            conns = {}
            for p, w in sp.items():
                f.add(h.Port(width=w), name=p)
                conns[p] = fp.add(h.Signal(width=w), name=f"s{k}_{p}")
            for p in bp:
                f.add(h.BundleInstance(of=ob, port=True), name=p)
                conns[p] = fp.add(h.BundleInstance(of=ob), name=f"b{k}_{p}")
            fp.add(h.Instance(of=f)(**conns), name=f"u{k}")
        try:
            h.elaborate(fp)
        except Exception:
            pass
        return None
    if kind == "badparent":
        # ANOTHER parent of these modules, which fails late in elaboration (a mis-sized array connection is only found after
        # everything below it had its bundles flattened); the design itself is not part of it
        bad = h.Module(name=f"BadParent_{next(build._counter)}")
        for k, m in enumerate(ms):
            sp, bp = refsem.iface(sess.design, ["mod", names[k]])  # the original, bundle-level ports
            bad.add(h.Instance(of=m)(**{p: h.NoConn() for p in list(sp) + list(bp)}), name=f"u{k}")
        s3 = bad.add(h.Signal(width=3), name="s3")
        bad.add(h.InstanceArray(build.leaf_call("E2", 990), 2)(x=s3, y=h.NoConn()), name="arr")
        try:
            h.elaborate(bad)
        except Exception:
            return None
        return None
    arg = list(ms) if (isinstance(names, tuple) or len(ms) > 1) else ms[0]
    if kind == "elab":
        h.elaborate(arg)
        return None
    if kind == "proto":
        return h.to_proto(arg)
    if kind == "netlist":
        h.netlist(arg, io.StringIO(), fmt="spice")
        return None
    raise ValueError(kind)


_fresh_cache = {}


def fresh_package(design, uid, names):
    """Package of a fresh build that sees only the single call to_proto(names)."""
    key = (jhash(design), uid, tuple(names), isinstance(names, tuple))
    if key not in _fresh_cache:
        s = Session(design, uid)
        s.ensure([m["name"] for m in design["modules"]])
        try:
            _fresh_cache[key] = canon(do_call(s, "proto", names))
        except Exception as e:
            _fresh_cache[key] = ("raised", oracle.exc_sig(e))
    return _fresh_cache[key]


def replay_history(rec, label, design, uid, history, late=False, sample=False, additions=False):
    """history: [(kind, [module names])]; late: modules are constructed only when first needed."""
    top = design["top"]
    case = {"kind": "history", "label": label, "design": design, "uid": uid, "history": history, "late": late}
    touches_sub = any(set(names) != {top} for _, names in history)
    rec.case(key=jhash([jhash(design), history, late]), nontrivial=touches_sub,
             sample={"label": label, "history": history, "late_parents": late, "modules": [m["name"] for m in design["modules"]]} if sample else None)
    sess = Session(design, uid)
    if not late:
        sess.ensure([m["name"] for m in design["modules"]])
    else:
        rec.count("late-parent.histories")
    for step, (kind, names) in enumerate(history):
        rec.count("history.calls")
        rec.count(f"history.{kind}")
        try:
            pkg = do_call(sess, kind, names)
        except Exception as e:
            ref = fresh_package(design, uid, names)
            if isinstance(ref, tuple):
                rec.count("history.raise-matches-fresh")
                return
            if kind == "netlist":
                # does the same netlist call fail on a fresh build too (e.g. un-compiled physical primitives)?
                s2 = Session(design, uid)
                s2.ensure([m["name"] for m in design["modules"]])
                try:
                    do_call(s2, "netlist", names)
                except Exception:
                    rec.count("history.raise-matches-fresh")
                    return
            rec.violation(f"history-call-fails:{kind}",
                          f"[{label}] call #{step} {kind}({names}) after history {history[:step]} raised {oracle.exc_sig(e)[:140]}; "
                          f"the same call on a fresh build succeeds", case=case, late=late)
            return
        if pkg is not None:
            rec.count("compare.intermediate")
            if len(names) > 1 or isinstance(names, tuple):
                rec.count("compare.intermediate-list")
            ref = fresh_package(design, uid, names)
            if canon(pkg) != ref:
                rec.violation("history-changes-package", f"[{label}] to_proto({names}) after history {history[:step]} differs from a fresh build"
                                                         + diff_text(pkg, ref), case=case, late=late)
                return
    import hdl21 as h

    try:
        final = h.to_proto(sess.mods([top])[0])
        again = h.to_proto(sess.mods([top])[0])
    except Exception as e:
        ref = fresh_package(design, uid, [top])
        if isinstance(ref, tuple):
            return
        rec.violation("history-breaks-final-export", f"[{label}] to_proto(top) after history {history} raised {oracle.exc_sig(e)[:140]}; "
                                                     f"a fresh build exports fine", case=case, late=late)
        return
    rec.count("compare.final")
    # a final LIST export over the modules the history touched (plus the top), in history order
    touched = []
    for _, names in history:
        for n in names:
            if n not in touched:
                touched.append(n)
    if top not in touched:
        touched.append(top)
    if len(touched) > 1:
        try:
            lp = h.to_proto(sess.mods(touched))
            lref = fresh_package(design, uid, tuple(touched))
            rec.count("compare.final-list")
            if not isinstance(lref, tuple) and canon(lp) != lref:
                rec.violation("history-changes-package", f"[{label}] to_proto({touched}) after history {history} differs from a fresh build"
                              + diff_text(lp, lref), case=case, late=late)
                return
        except Exception as e:
            lref = fresh_package(design, uid, tuple(touched))
            if not isinstance(lref, tuple):
                rec.violation("history-breaks-final-export", f"[{label}] to_proto({touched}) after history {history} raised "
                                                             f"{oracle.exc_sig(e)[:140]}; a fresh build exports fine", case=case, late=late)
                return
    ref = fresh_package(design, uid, [top])
    if isinstance(ref, tuple):
        rec.violation("history-enables-export", f"[{label}] to_proto(top) returned after history {history} although a fresh build raises {ref[1]}", case=case)
        return
    if canon(final) != ref:
        rec.violation("history-changes-package", f"[{label}] to_proto(top) after history {history} differs from a fresh build" + diff_text(final, ref),
                      case=case, late=late)
    elif final.SerializeToString(deterministic=True) != again.SerializeToString(deterministic=True):
        rec.violation("re-export-changes-package", f"[{label}] a second to_proto(top) returned a different package", case=case)
    elif additions:
        refuses_additions(rec, label, sess, top, final, case)


def refuses_additions(rec, label, sess, top, final, case):
    """Every elaborated module of the session refuses further additions - under fresh names and under names it already holds -
    and the refused attempts leave the design as it was."""
    import hdl21 as h

    leaf = build.leaf_call("E2", 991)
    for mname, m in list(sess.built.modules.items()):
        if m._elaborated is None:
            continue
        # ... also a Literal, through the list that is the documented way to add one
        for form in ("append", "extend", "insert"):
            rec.count("additions.attempted")
            try:
                lit = h.Literal(text="* added after elaboration")
                {"append": lambda: m.literals.append(lit), "extend": lambda: m.literals.extend([lit]), "insert": lambda: m.literals.insert(0, lit)}[form]()
            except Exception:
                continue
            rec.violation("post-elaboration-addition-accepted", f"[{label}] literals.{form} of a Literal on the elaborated module {mname} was accepted", case=case,
                          form="literals." + form, target="literal")
        # ... and the in-place operators, which edit the list BEFORE the Module refuses the re-assignment they end with
        for form in ("+=", "*="):
            rec.count("additions.attempted")
            n0 = len(m.literals)
            try:
                if form == "+=":
                    m.literals += [h.Literal(text="* added after elaboration")]
                else:
                    m.literals *= 2
            except Exception:
                pass
            if len(m.literals) != n0 or (form == "+=" and any(getattr(l_, "text", None) == "* added after elaboration" for l_ in m.literals)):
                rec.violation("post-elaboration-addition-accepted", f"[{label}] `literals {form} ...` on the elaborated module {mname} changed its literals "
                              f"({n0} -> {len(m.literals)} entries)", case=case, form="literals" + form, target="literal")
        held = {"signal": next(iter(m.signals), None), "port": next(iter(m.ports), None), "instance": next(iter(m.instances), None)}
        for target, name in [("fresh", "zzadd")] + [(k, v) for k, v in held.items() if v]:
            for vk, mk in (("Signal", lambda: h.Signal()), ("Port", lambda: h.Input(width=2)), ("Instance", lambda: h.Instance(of=leaf))):
                for form in ("setattr", "add"):
                    rec.count("additions.attempted")
                    try:
                        if form == "setattr":
                            setattr(m, name, mk())
                        else:
                            m.add(mk(), name=name)
                    except Exception:
                        continue
                    rec.violation("post-elaboration-addition-accepted",
                                  f"[{label}] {form} of a {vk} under {'a fresh name' if target == 'fresh' else 'the name of an existing ' + target} "
                                  f"on the elaborated module {mname} was accepted", case=case, form=form, target=target)
                    return
    try:
        after = h.to_proto(sess.mods([top])[0])
    except Exception as e:
        rec.violation("refused-addition-damages", f"[{label}] after refused additions to_proto(top) raised {oracle.exc_sig(e)[:140]}", case=case)
        return
    if after.SerializeToString(deterministic=True) != final.SerializeToString(deterministic=True):
        rec.violation("refused-addition-damages", f"[{label}] after refused additions to_proto(top) returns a different package"
                      + diff_text(after, canon(final)), case=case)


def diff_text(pkg, ref_bytes) -> str:
    import vlsir.circuit_pb2 as vckt
    from ..monitors.pkgmon import first_diff

    if isinstance(ref_bytes, tuple):
        return f" (fresh build raises {ref_bytes[1]})"
    ref = vckt.Package()
    ref.ParseFromString(ref_bytes)
    mine = vckt.Package()
    mine.ParseFromString(canon(pkg))
    return ": " + first_diff(ref, mine).replace("pkg", "fresh-vs-history", 1)


def histories_for(design, rng, exhaustive: bool, n_sampled: int):
    names = [m["name"] for m in design["modules"]]
    out = []
    if exhaustive:
        for k in range(1, len(names) + 1):
            for perm in itertools.permutations(names, k):
                out.append([("elab", [n]) for n in perm])           # single-module calls in this order
                out.append([("elab", tuple(perm))])                  # one list call over this ordered subset
    for _ in range(n_sampled):
        k = rng.randint(1, len(names))
        perm = rng.sample(names, k)
        h_ = []
        for n in perm:
            kind = rng.choice(["elab", "proto", "netlist", "badparent", "samename"])
            if rng.random() < 0.25 and len(perm) > 1:
                grp = tuple(rng.sample(perm, rng.randint(2, len(perm))))
                h_.append((kind, grp))
            else:
                h_.append((kind, [n]))
            if rng.random() < 0.2:
                h_.append(h_[-1])  # a repeated call
        out.append(h_)
    return out


def fresh_process_crosscheck(rec, design, uid):
    """The in-process fresh reference equals the package produced by a fresh PROCESS."""
    code = ("import sys, json, base64; sys.path.insert(0, %r); from hv import env; env.bootstrap();\n"
            "from hv.checks import c07; d = json.loads(sys.stdin.read());\n"
            "r = c07.fresh_package(d['design'], d['uid'], [d['design']['top']]);\n"
            "print('PKG', base64.b64encode(r).decode() if isinstance(r, bytes) else 'RAISED')" % str(env.VERIF))
    try:
        p = subprocess.run([env.PY, "-c", code], input=json.dumps({"design": design, "uid": uid}), capture_output=True, text=True,
                           env=env.child_env(), timeout=120, cwd=str(env.VERIF))
    except subprocess.TimeoutExpired:
        rec.inconclusive.append("fresh-process cross-check timed out")
        return
    import base64

    line = [l for l in p.stdout.splitlines() if l.startswith("PKG ")]
    if not line:
        rec.inconclusive.append("fresh-process cross-check produced no output: " + p.stderr[-300:])
        return
    rec.count("compare.fresh-process")
    mine = fresh_package(design, uid, [design["top"]])
    theirs = line[0][4:]
    if (theirs == "RAISED") != isinstance(mine, tuple) or (theirs != "RAISED" and base64.b64decode(theirs) != mine):
        rec.violation("fresh-process-differs", "a fresh process exports a different package than a fresh build inside this process",
                      case={"kind": "fresh-process", "design": design, "uid": uid})


def run(ctx, rec):
    rng = ctx.rng("c07")
    designs = list(fixed_designs())
    for l, d in spec.structural_designs():
        if l.endswith("-pref") and l.startswith("bundle-") and (("B1" in l or "B3" in l or "B5" in l) or not ctx.quick):
            designs.append((l, d))
    n_fixed = len(designs)
    n_rand = 4 if ctx.quick else 60
    tries = 0
    while len(designs) < n_fixed + n_rand and tries < 2000:
        tries += 1
        d = spec.random_design(rng, max_modules=5, p_pref=0.2, p_bundle=0.8)
        if 3 <= len(d["modules"]) <= 5 and oracle.judge(d, uid=f"_pre{tries}").status == "ok":
            designs.append((f"random-{len(designs)}", d))
    if ctx.nshards > 1:
        designs = designs[ctx.shard:: ctx.nshards]
    for di, (label, d) in enumerate(designs):
        uid = f"_c07s{ctx.shard}d{di}"
        hs = histories_for(d, rng, exhaustive=True, n_sampled=70 if ctx.quick else 700)
        for hi, h_ in enumerate(hs):
            replay_history(rec, label, d, uid, [(k, n) for k, n in h_], late=False, sample=(hi % 900 == 5), additions=(hi % 10 == 0))
        # late parents: the same kinds of histories, but every module is only constructed when first needed
        for hi, h_ in enumerate(histories_for(d, rng, exhaustive=False, n_sampled=90 if ctx.quick else 800)):
            replay_history(rec, label, d, uid, [(k, n) for k, n in h_], late=True, sample=(hi % 400 == 7), additions=(hi % 10 == 0))
        if di < (2 if ctx.quick else 6):
            fresh_process_crosscheck(rec, d, uid)
        rec.hist("histories_per_design", f"{label}: {len(hs)}")
    rec.extra["designs"] = [l for l, _ in designs]
    rec.exhaustive = False
    rec.extra["explanation_exhaustive"] = "permutation / list histories of elaborate calls are enumerated completely per design; other histories are sampled"


def shards(ctx):
    return 16


def replay(ctx, rec, case):
    if case.get("kind") == "history":
        hist = [(k, tuple(n) if False else n) for k, n in case["history"]]
        replay_history(rec, case.get("label", "replay"), case["design"], case["uid"] + "r", hist, late=case.get("late", False), sample=True, additions=True)
    else:
        fresh_process_crosscheck(rec, case["design"], case["uid"])
