"""
The generator program of C09: defines a family of generators over every param-class shape, runs a (seeded, optionally
shuffled) list of calls and returns/prints the observations.  Run in-process by the check (with the monitors) and in
fresh sub-processes with different PYTHONHASHSEED / call order for the process-independence clause:

    python -m hv.checks.c09_prog <value seed> <order seed> <n>
"""

import json
import random
import sys
from decimal import Decimal
from enum import Enum
from typing import Optional

LONG = "L" * 70


class Color(Enum):
    RED = "red"
    BLUE = "blue sky"


def define():
    """Fresh generator objects (a fresh process' worth).  Returns (gens, paramclasses, body run counters)."""
    import hdl21 as h

    runs = {}

    def mark(gname, params):
        k = (gname, repr(params))
        runs[k] = runs.get(k, 0) + 1

    def simple_module(w=1):
        m = h.Module()
        m.add(h.Port(width=max(1, int(w) % 4 + 1)), name="a")
        return m

    @h.paramclass
    class P1:
        a = h.Param(dtype=int, desc="a", default=0)
        b = h.Param(dtype=str, desc="b", default="")
        c = h.Param(dtype=float, desc="c", default=0.0)
        d = h.Param(dtype=Optional[int], desc="d", default=None)
        o = h.Param(dtype=Optional[int], desc="optional with a non-None default", default=5)

    @h.paramclass
    class P2:
        a = h.Param(dtype=str, desc="a", default="")
        b = h.Param(dtype=str, desc="b", default="")

    @h.paramclass
    class P3:
        e = h.Param(dtype=Color, desc="e", default=Color.RED)
        n = h.Param(dtype=int, desc="n", default=0)

    @h.paramclass
    class P4:
        inner = h.Param(dtype=P1, desc="inner", default=P1())
        k = h.Param(dtype=int, desc="k", default=0)

    @h.paramclass
    class P5:
        v = h.Param(dtype=h.Prefixed, desc="v", default=h.Prefixed(number=Decimal(1)))
        s = h.Param(dtype=h.Scalar, desc="s", default=1)

    @h.paramclass
    class P6:
        m = h.Param(dtype=h.Instantiable, desc="module-valued", default=None)
        n = h.Param(dtype=int, desc="n", default=0)

    @h.paramclass
    class P7:
        g = h.Param(dtype=h.Generator, desc="generator-valued", default=None)
        n = h.Param(dtype=int, desc="n", default=0)

    @h.paramclass
    class P8:
        depth = h.Param(dtype=int, desc="depth", default=0)

    @h.paramclass
    class P9:
        t = h.Param(dtype=tuple, desc="factory-made default", default_factory=tuple)
        u = h.Param(dtype=P1, desc="factory-made param-class default", default_factory=P1)
        n = h.Param(dtype=int, desc="n", default=0)
        fs = h.Param(dtype=frozenset, desc="set-valued", default=frozenset())

    gens = {}

    def G10(p: P9) -> h.Module:
        mark("G10", p)
        return simple_module(len(p.t) + p.u.a)

    def G1(p: P1) -> h.Module:
        mark("G1", p)
        return simple_module(p.a)

    def G2(p: P2) -> h.Module:
        mark("G2", p)
        return simple_module(len(p.a))

    def G3(p: P3) -> h.Module:
        mark("G3", p)
        return simple_module(p.n)

    def G4(p: P4) -> h.Module:
        mark("G4", p)
        m = h.Module()
        m.add(h.Signal(width=2), name="s")
        inner = gens["G1"](p.inner)  # a call from inside another generator, by param-class instance
        m.add(h.Instance(of=inner)(a=m.s[0: len(inner.a._slices) * 0 + inner.a.width] if inner.a.width <= 2 else h.Signal(width=inner.a.width)), name="i") \
            if False else m.add(h.Signal(width=inner.a.width), name="t")
        m.add(h.Instance(of=inner)(a=m.t), name="i")
        return m

    def G5(p: P5) -> h.Module:
        mark("G5", p)
        return simple_module(1)

    def G6(p: P6) -> h.Module:
        mark("G6", p)
        m = h.Module()
        if p.m is not None and isinstance(p.m, h.Module):
            conns = {n: m.add(h.Signal(width=port.width), name=f"s_{n}") for n, port in p.m.ports.items()}
            m.add(h.Instance(of=p.m)(**conns), name="i")
        return m

    def G7(p: P7) -> h.Module:
        mark("G7", p)
        m = h.Module()
        if p.g is not None:
            inner = p.g(a=p.n)  # keyword call from inside a generator
            m.add(h.Signal(width=inner.a.width), name="t")
            m.add(h.Instance(of=inner)(a=m.t), name="i")
        return m

    def G8(p: P8) -> h.Module:
        mark("G8", p)
        m = h.Module()
        m.add(h.Port(), name="a")
        if p.depth > 0:
            inner = gens["G8"](depth=p.depth - 1)  # recursion
            m.add(h.Instance(of=inner)(a=m.a), name="i")
        return m

    def G9(p: P1) -> h.Module:
        """Hands on another generator's module (as the built-in MosStack does with Series)."""
        mark("G9", p)
        return gens["G1"](a=p.a, b=p.b, c=p.c, d=p.d, o=p.o)

    for f in (G1, G2, G3, G4, G5, G6, G7, G8, G9, G10):
        gens[f.__name__] = h.generator(f)
    P = {"P1": P1, "P2": P2, "P3": P3, "P4": P4, "P5": P5, "P6": P6, "P7": P7, "P8": P8, "P9": P9}
    return gens, P, runs


STRS = ["x", "x b=y", "y b=z", "z", "", " ", "a=b", "q'\"q", "x  y", "b=", LONG, LONG + "x", LONG[:50], "é", "1", "1.0", "None"]


def calls(value_seed: int, n: int):
    """A deterministic list of call descriptions: (generator, form, plain-data kwargs)."""
    r = random.Random(value_seed)
    out = []
    for _ in range(n):
        g = r.choice(["G1", "G1", "G2", "G2", "G2", "G3", "G4", "G5", "G6", "G7", "G8", "G9", "G10", "G10"])
        form = r.choice(["kw", "inst"])
        if g in ("G1", "G9"):
            kw = {"a": r.choice([0, 1, 2, 1.0, True, 10 ** 6, -1]), "b": r.choice(STRS), "c": r.choice([0.0, 1.0, 1, 0.1, 1e-9, 2.5]),
                  "d": r.choice([None, 0, 1, 2]), "o": r.choice([None, 5, 0, 5])}
        elif g == "G2":
            kw = {"a": r.choice(STRS), "b": r.choice(STRS)}
        elif g == "G3":
            kw = {"e": r.choice(["RED", "BLUE"]), "n": r.choice([0, 1, 2])}
        elif g == "G4":
            kw = {"inner": {"a": r.choice([0, 1, 2]), "b": r.choice(STRS[:6]), "c": r.choice([0.0, 1.0]), "d": r.choice([None, 1])}, "k": r.choice([0, 1])}
        elif g == "G5":
            kw = {"v": r.choice([["1000", "MILLI"], ["1", "UNIT"], ["1.0", "UNIT"], ["1", "KILO"], ["0.001", "KILO"], ["3", "NANO"], ["1.50", "MICRO"], ["1.5", "MICRO"]]),
                  "s": r.choice([1, "1", 1.0, "w/2", "2e-9", ["2", "NANO"]])}
        elif g == "G6":
            kw = {"m": r.choice([None, ["G1", {"a": 1}], ["G1", {"a": 2}], ["G3", {"n": 1}], "R1", "R2"]), "n": r.choice([0, 1])}
        elif g == "G7":
            kw = {"g": r.choice([None, "G1", "G9"]), "n": r.choice([0, 1, 2])}
        elif g == "G10":
            kw = {"n": r.choice([0, 1])}
            if r.random() < 0.7:
                kw["t"] = r.choice([[], [1], [1, 2], [2, 1], ["1"]])
            if r.random() < 0.7:
                kw["u"] = {"a": r.choice([0, 1, 2]), "b": r.choice(["", "x"])}
            if r.random() < 0.6:
                kw["fs"] = r.choice([[], ["abc", "def", "ghi", "jkl"], ["jkl", "ghi", "abc", "def"], ["abc"], [1, 2, 3], ["1", "2", "3"], [3, 1, 2]])
        else:
            kw = {"depth": r.choice([0, 1, 2, 3])}
        out.append((g, form, kw))
    # deliberate coincidences: the same parameter values through G1 directly and through G9 (which hands on G1's module),
    # and as a Module-valued parameter of G6
    for a in (0, 1, 2):
        kw = {"a": a, "b": "", "c": 0.0, "d": None}
        out.append(("G1", "kw", dict(kw)))
        out.append(("G9", "kw", dict(kw)))
        out.append(("G6", "kw", {"m": ["G1", {"a": a}], "n": 0}))
        out.append(("G9", "inst", dict(kw)))
    # the documented collision pair of readable names
    out.append(("G2", "kw", {"a": "x b=y", "b": "z"}))
    out.append(("G2", "kw", {"a": "x", "b": "y b=z"}))
    return out


def realise(gens, P, g, kw):
    """Plain-data kwargs -> real parameter values."""
    import hdl21 as h

    kw = dict(kw)
    if g == "G3":
        kw["e"] = Color[kw["e"]]
    if g == "G4":
        kw["inner"] = P["P1"](**kw["inner"])
    if g == "G5":
        kw["v"] = h.Prefixed(number=Decimal(kw["v"][0]), prefix=h.Prefix[kw["v"][1]])
        if isinstance(kw["s"], list):
            kw["s"] = h.Prefixed(number=Decimal(kw["s"][0]), prefix=h.Prefix[kw["s"][1]])
    if g == "G6":
        m = kw["m"]
        if isinstance(m, list):
            kw["m"] = gens[m[0]](**m[1])
        elif m == "R1":
            kw["m"] = h.R(r=1)
        elif m == "R2":
            kw["m"] = h.R(r=2)
    if g == "G10":
        if "t" in kw:
            kw["t"] = tuple(kw["t"])
        if "u" in kw:
            kw["u"] = P["P1"](**kw["u"])
        if "fs" in kw:
            kw["fs"] = frozenset(kw["fs"])
    if g == "G7" and kw["g"] is not None:
        kw["g"] = gens[kw["g"]]
    return kw


def paramclass_of(g):
    return {"G1": "P1", "G2": "P2", "G3": "P3", "G4": "P4", "G5": "P5", "G6": "P6", "G7": "P7", "G8": "P8", "G9": "P1", "G10": "P9"}[g]


def run_program(value_seed: int, order_seed: int, n: int):
    """Returns (events, runs, gens): events = [{i, gen, form, kw, params, module, name_at_return}]"""
    import hdl21 as h
    from hdl21.qualname import qualname

    gens, P, runs = define()
    cl = calls(value_seed, n)
    order = list(range(len(cl)))
    random.Random(order_seed).shuffle(order)
    events = []
    for i in order:
        g, form, kw = cl[i]
        try:
            real = realise(gens, P, g, kw)
            params = P[paramclass_of(g)](**real)
            if form == "kw":
                m = gens[g](**real)
            else:
                m = gens[g](params)
            events.append({"i": i, "gen": g, "form": form, "kw": kw, "params": params, "module": m, "name_at_return": m.name,
                           "qualname_at_return": qualname(m)})
        except Exception as e:
            events.append({"i": i, "gen": g, "form": form, "kw": kw, "error": f"{type(e).__name__}: {str(e)[:100]}"})
    return events, runs, gens


def main():
    sys.path.insert(0, __file__.rsplit("/hv/", 1)[0])
    from hv import env

    env.bootstrap()
    vs, os_, n = int(sys.argv[1]), int(sys.argv[2]), int(sys.argv[3])
    events, runs, gens = run_program(vs, os_, n)
    out = {}
    for e in events:
        if "module" in e:
            out[str(e["i"])] = {"final_name": e["module"].name, "name_at_return": e["name_at_return"]}
        else:
            out[str(e["i"])] = {"error": e["error"]}
    print("C09PROG " + json.dumps(out, sort_keys=True))


if __name__ == "__main__":
    main()
