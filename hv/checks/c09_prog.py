"""
The generator program of C09: defines a family of generators over every param-class shape, runs a (seeded, optionally
shuffled) list of calls and returns/prints the observations.  Run in-process by the check (with the monitors) and in
fresh sub-processes with different PYTHONHASHSEED / call order for the process-independence clause:

    python -m hv.checks.c09_prog <value seed> <order seed> <n>
"""

import json
import random
import sys
from decimal import Decimal
from enum import Enum
from typing import Optional, Union, Any, Tuple, FrozenSet, NamedTuple

import pydantic

LONG = "L" * 70


class Color(Enum):
    RED = "red"
    BLUE = "blue sky"


class _NT(NamedTuple):
    x: float = 0.0
    y: float = 1.0


class _BM(pydantic.BaseModel):
    model_config = pydantic.ConfigDict(frozen=True)
    x: float = 0.0
    t: Tuple[float, ...] = ()


def define():
    """Fresh generator objects (a fresh process' worth).  Returns (gens, paramclasses, body run counters)."""
    import hdl21 as h

    runs = {}
    last = [None]  # key of the most recent body run (a call that RAISES afterwards may legitimately run its body again next time)
    seen = {}  # generator name -> the parameter objects its body was run with

    def mark(gname, params):
        seen.setdefault(gname, []).append(params)
        # (generators print by name only: two different generators of one name must not share a counter)
        gids = tuple(id(getattr(params, f)) for f in getattr(type(params), "__params__", {})
                     if isinstance(getattr(params, f), h.Generator) or (isinstance(getattr(params, f), h.Module) and getattr(params, f).name is None))
        k = (gname, repr(params) + (f" #gen{gids}" if gids else ""))
        runs[k] = runs.get(k, 0) + 1
        last[0] = k

    def simple_module(w=1):
        m = h.Module()
        m.add(h.Port(width=max(1, int(w) % 4 + 1)), name="a")
        return m

    @h.paramclass
    class P1:
        a = h.Param(dtype=int, desc="a", default=0)
        b = h.Param(dtype=str, desc="b", default="")
        c = h.Param(dtype=float, desc="c", default=0.0)
        d = h.Param(dtype=Optional[int], desc="d", default=None)
        o = h.Param(dtype=Optional[int], desc="optional with a non-None default", default=5)

    @h.paramclass
    class P2:
        a = h.Param(dtype=str, desc="a", default="")
        b = h.Param(dtype=str, desc="b", default="")

    @h.paramclass
    class P3:
        e = h.Param(dtype=Color, desc="e", default=Color.RED)
        n = h.Param(dtype=int, desc="n", default=0)

    @h.paramclass
    class P4:
        inner = h.Param(dtype=P1, desc="inner", default=P1())
        k = h.Param(dtype=int, desc="k", default=0)

    @h.paramclass
    class P5:
        v = h.Param(dtype=h.Prefixed, desc="v", default=h.Prefixed(number=Decimal(1)))
        s = h.Param(dtype=h.Scalar, desc="s", default=1)

    @h.paramclass
    class P6:
        m = h.Param(dtype=Optional[h.Instantiable], desc="module-valued", default=None)
        n = h.Param(dtype=int, desc="n", default=0)

    @h.paramclass
    class P7:
        g = h.Param(dtype=Optional[h.Generator], desc="generator-valued", default=None)
        n = h.Param(dtype=int, desc="n", default=0)

    @h.paramclass
    class P8:
        depth = h.Param(dtype=int, desc="depth", default=0)

    @h.paramclass
    class P9:
        t = h.Param(dtype=tuple, desc="factory-made default", default_factory=tuple)
        u = h.Param(dtype=P1, desc="factory-made param-class default", default_factory=P1)
        n = h.Param(dtype=int, desc="n", default=0)
        fs = h.Param(dtype=frozenset, desc="set-valued", default=frozenset())

    # two DIFFERENT param-classes that share a qualified name (two design files each defining `class Params`):
    # one all-scalar (readable names), one with a Prefixed field (hashed names)
    PA = h.paramclass(type("Params", (), {"gain": h.Param(dtype=int, desc="gain", default=1), "model": h.Param(dtype=str, desc="model", default="lvt")}))
    PB = h.paramclass(type("Params", (), {"i": h.Param(dtype=h.Prefixed, desc="i", default=h.Prefixed(number=Decimal(1))),
                                          "n": h.Param(dtype=int, desc="n", default=1)}))

    # fields whose declared type admits values of several kinds that PRINT alike: 1 and "1", None and "None", 1.0 and "1.0"
    @h.paramclass
    class PC:
        tag = h.Param(dtype=Union[int, str], desc="number or label", default=0)
        anyv = h.Param(dtype=Any, desc="anything hashable", default=None)
        n = h.Param(dtype=Optional[int], desc="n", default=None)

    @h.paramclass
    class PD:
        d = h.Param(dtype=Decimal, desc="an exact decimal", default=Decimal(1))
        n = h.Param(dtype=int, desc="n", default=0)

    # containers of floats: (0.0,) and (-0.0,) are equal values, which the JSON writer spells differently
    @h.paramclass
    class PEI:
        pts = h.Param(dtype=Tuple[float, ...], desc="points", default=())

    @h.paramclass
    class PE:
        nt = h.Param(dtype=Optional[_NT], desc="a named tuple", default=None)
        bm = h.Param(dtype=Optional[_BM], desc="a frozen pydantic model", default=None)
        pts = h.Param(dtype=Tuple[float, ...], desc="points", default=())
        fs = h.Param(dtype=FrozenSet[float], desc="set of floats", default=frozenset())
        inner = h.Param(dtype=PEI, desc="nested", default=PEI())
        nest = h.Param(dtype=Tuple[Tuple[float, ...], ...], desc="tuples in a tuple", default=())

    gens = {}

    def G17(p: PE) -> h.Module:
        mark("G17", p)
        return simple_module(len(p.pts))

    def G16(p: PD) -> h.Module:
        mark("G16", p)
        return simple_module(p.n)

    def G15(p: PC) -> h.Module:
        mark("G15", p)
        return simple_module(p.n or 0)

    def G11(p: PA) -> h.Module:
        mark("G11", p)
        return simple_module(p.gain)

    def G12(p: PB) -> h.Module:
        mark("G12", p)
        return simple_module(p.n)

    def G13(p: P8) -> h.Module:
        """Hands on a module generated by a generator defined in ANOTHER file (the built-in Series)."""
        mark("G13", p)
        from hdl21.generators import Series

        return Series(unit=h.R(r=1), conns=("p", "n"), nser=p.depth + 1)

    def G14(p: P8) -> h.Module:
        """The built-in generator called directly (same parameters as G13 hands on)."""
        mark("G14", p)
        from hdl21.generators import Series

        m = h.Module()
        inner = Series(unit=h.R(r=1), conns=("p", "n"), nser=p.depth + 1)
        m.add(h.Signal(), name="a")
        m.add(h.Signal(), name="b")
        m.add(h.Instance(of=inner)(p=m.a, n=m.b), name="i")
        m._c09_inner = inner
        return m

    def G10(p: P9) -> h.Module:
        mark("G10", p)
        return simple_module(len(p.t) + p.u.a)

    def G1(p: P1) -> h.Module:
        mark("G1", p)
        return simple_module(p.a)

    def G2(p: P2) -> h.Module:
        mark("G2", p)
        return simple_module(len(p.a))

    def G3(p: P3) -> h.Module:
        mark("G3", p)
        return simple_module(p.n)

    def G4(p: P4) -> h.Module:
        mark("G4", p)
        m = h.Module()
        m.add(h.Signal(width=2), name="s")
        inner = gens["G1"](p.inner)  # a call from inside another generator, by param-class instance
        m.add(h.Instance(of=inner)(a=m.s[0: len(inner.a._slices) * 0 + inner.a.width] if inner.a.width <= 2 else h.Signal(width=inner.a.width)), name="i") \
            if False else m.add(h.Signal(width=inner.a.width), name="t")
        m.add(h.Instance(of=inner)(a=m.t), name="i")
        return m

    def G5(p: P5) -> h.Module:
        mark("G5", p)
        return simple_module(1)

    def G6(p: P6) -> h.Module:
        mark("G6", p)
        m = h.Module()
        if p.m is not None and isinstance(p.m, h.Module):
            conns = {n: m.add(h.Signal(width=port.width), name=f"s_{n}") for n, port in p.m.ports.items()}
            m.add(h.Instance(of=p.m)(**conns), name="i")
        return m

    def G7(p: P7) -> h.Module:
        mark("G7", p)
        m = h.Module()
        if p.g is not None:
            inner = p.g(a=p.n)  # keyword call from inside a generator
            m.add(h.Signal(width=inner.a.width), name="t")
            m.add(h.Instance(of=inner)(a=m.t), name="i")
        return m

    def G8(p: P8) -> h.Module:
        mark("G8", p)
        m = h.Module()
        m.add(h.Port(), name="a")
        if p.depth > 0:
            inner = gens["G8"](depth=p.depth - 1)  # recursion
            m.add(h.Instance(of=inner)(a=m.a), name="i")
        return m

    def G9(p: P1) -> h.Module:
        """Hands on another generator's module (as the built-in MosStack does with Series)."""
        mark("G9", p)
        return gens["G1"](a=p.a, b=p.b, c=p.c, d=p.d, o=p.o)

    for f in (G1, G2, G3, G4, G5, G6, G7, G8, G9, G10, G11, G12, G13, G14, G15, G16, G17):
        gens[f.__name__] = h.generator(f)
    P = {"P1": P1, "P2": P2, "P3": P3, "P4": P4, "P5": P5, "P6": P6, "P7": P7, "P8": P8, "P9": P9, "PA": PA, "PB": PB, "PC": PC, "PD": PD, "PE": PE, "PEI": PEI}
    gens["__seen__"] = seen
    gens["__last__"] = last
    return gens, P, runs


STRS = ["x", "x b=y", "y b=z", "z", "", " ", "a=b", "q'\"q", "x  y", "b=", LONG, LONG + "x", LONG[:50], "é", "1", "1.0", "None"]


def calls(value_seed: int, n: int):
    """A deterministic list of call descriptions: (generator, form, plain-data kwargs)."""
    r = random.Random(value_seed)
    out = []
    for _ in range(n):
        g = r.choice(["G1", "G1", "G2", "G2", "G2", "G3", "G4", "G5", "G6", "G7", "G8", "G9", "G10", "G10", "G11", "G12", "G13", "G14", "G15", "G15", "G16", "G16", "G17", "G17"])
        form = r.choice(["kw", "inst"])
        if g in ("G1", "G9"):
            kw = {"a": r.choice([0, 1, 2, 1.0, True, 10 ** 6, -1]), "b": r.choice(STRS), "c": r.choice([0.0, 1.0, 1, 0.1, 1e-9, 2.5, -0.0]),
                  "d": r.choice([None, 0, 1, 2]), "o": r.choice([None, 5, 0, 5])}
        elif g == "G2":
            kw = {"a": r.choice(STRS), "b": r.choice(STRS)}
        elif g == "G3":
            kw = {"e": r.choice(["RED", "BLUE"]), "n": r.choice([0, 1, 2])}
        elif g == "G4":
            kw = {"inner": {"a": r.choice([0, 1, 2]), "b": r.choice(STRS[:6]), "c": r.choice([0.0, 1.0]), "d": r.choice([None, 1])}, "k": r.choice([0, 1])}
        elif g == "G5":
            kw = {"v": r.choice([["1000", "MILLI"], ["1", "UNIT"], ["1.0", "UNIT"], ["1", "KILO"], ["0.001", "KILO"], ["3", "NANO"], ["1.50", "MICRO"], ["1.5", "MICRO"], ["1", "ZEPTO"], ["2", "ZEPTO"], ["1.233", "ATTO"], ["1.234", "ATTO"],
                            ["0.005001", "FEMTO"], ["0.005002", "FEMTO"]]),
                  "s": r.choice([1, "1", 1.0, "w/2", "2e-9", ["2", "NANO"]])}
        elif g == "G6":
            kw = {"m": r.choice([None, ["G1", {"a": 1}], ["G1", {"a": 2}], ["G3", {"n": 1}], "R1", "R2", "XA", "XB",
                                 # one device reached through two constructors (Pmos() and Mos(tp=PMOS) are equal calls)
                                 "PM1", "PM2", "NM1", "NM2", "PNP1", "PNP2", "NPN1", "NPN2",
                                 # two external modules whose (qualified name, parameter name) pairs concatenate to one string
                                 "XRES", "XRESW",
                                 # one external module called with dictionaries holding 0.0, -0.0 (equal) and 1.0
                                 "XDZ1", "XDZ2", "XDZ3",
                                 # two different modules that have no name (yet)
                                 "ANON1", "ANON2"]), "n": r.choice([0, 1])}
        elif g == "G7":
            kw = {"g": r.choice([None, "G1", "G9", "aux:G1", "aux:G9"]), "n": r.choice([0, 1, 2])}
        elif g == "G11":
            kw = {"gain": r.choice([1, 2, 3]), "model": r.choice(["lvt", "hvt"])}
        elif g == "G12":
            kw = {"i": r.choice([["1", "UNIT"], ["1000", "MILLI"], ["2", "UNIT"]]), "n": r.choice([1, 2])}
        elif g in ("G13", "G14"):
            kw = {"depth": r.choice([0, 1, 2])}
        elif g == "G16":
            # decimals that agree in their first 17 digits (one float), and one value written with and without trailing zeros
            kw = {"d": r.choice(["0.30000000000000000001", "0.30000000000000000002", "0.3", "1", "1.0", "1.00", "1E+0", "100", "1E+2", "-0", "0",
                                  # ... and beyond the 28 digits of the default decimal context
                                  "1.0000000000000000000000000000001", "1.0000000000000000000000000000002", "1.00000000000000000000000000000010"]), "n": r.choice([0, 1])}
        elif g == "G17":
            fl = lambda: r.choice([[], [0.0], [-0.0], [0.0, 1.0], [-0.0, 1.0], [1.0, 0.0], [1.0]])
            kw = {}
            for f in ("pts", "fs", "inner"):
                if r.random() < 0.5:
                    kw[f] = fl()
            if r.random() < 0.3:
                kw["nest"] = [fl(), fl()]
            if r.random() < 0.3:
                kw["nt"] = r.choice([0.0, -0.0, 1.0])
            if r.random() < 0.3:
                kw["bm"] = r.choice([[0.0, []], [-0.0, []], [1.0, [0.0]], [1.0, [-0.0]]])
        elif g == "G15":
            kw = {"tag": r.choice([1, "1", 0, "0", "x", 2, "None", "1.0"]), "anyv": r.choice([None, "None", 1, "1", 1.5, "1.5", True]), "n": r.choice([None, 1])}
        elif g == "G10":
            kw = {"n": r.choice([0, 1])}
            if r.random() < 0.7:
                kw["t"] = r.choice([[], [1], [1, 2], [2, 1], ["1"]])
            if r.random() < 0.7:
                kw["u"] = {"a": r.choice([0, 1, 2]), "b": r.choice(["", "x"])}
            if r.random() < 0.6:
                kw["fs"] = r.choice([[], ["abc", "def", "ghi", "jkl"], ["jkl", "ghi", "abc", "def"], ["abc"], [1, 2, 3], ["1", "2", "3"], [3, 1, 2],
                                     # sets of sets (only partially ordered: subset comparison), of tuples, of mixed types
                                     [["ab", "cd"], ["ef"], ["gh", "ij", "kl"], ["mn"]], [["mn"], ["gh", "kl", "ij"], ["ef"], ["cd", "ab"]],
                                     [["ab"], ["ab", "cd"]], [("t", 1), ("t", 2), ("u", 1)], [1, "1", 2.5, "b"]])
        else:
            kw = {"depth": r.choice([0, 1, 2, 3])}
        out.append((g, form, kw))
    # deliberate coincidences: the same parameter values through G1 directly and through G9 (which hands on G1's module),
    # and as a Module-valued parameter of G6
    for a in (0, 1, 2):
        kw = {"a": a, "b": "", "c": 0.0, "d": None}
        out.append(("G1", "kw", dict(kw)))
        out.append(("G9", "kw", dict(kw)))
        out.append(("G6", "kw", {"m": ["G1", {"a": a}], "n": 0}))
        out.append(("G9", "inst", dict(kw)))
    # Prefixed values that differ only far below one UNIT (and are unequal: 1 zepto is not 2 zepto)
    for pair in ((["1", "ZEPTO"], ["2", "ZEPTO"]), (["1.233", "ATTO"], ["1.234", "ATTO"]), (["0.005001", "FEMTO"], ["0.005002", "FEMTO"]),
                 (["1", "YOCTO"], ["-1", "YOCTO"]), (["123456789012345678901234567890", "UNIT"], ["123456789012345678901234567891", "UNIT"])):
        for v in pair:
            out.append(("G5", "kw", {"v": v, "s": 1}))
            out.append(("G5", "kw", {"v": ["1", "UNIT"], "s": v}))
    # equal values Python writes differently: 0.0 and -0.0
    out.append(("G1", "kw", {"a": 7, "b": "z", "c": 0.0, "d": None, "o": 5}))
    out.append(("G1", "kw", {"a": 7, "b": "z", "c": -0.0, "d": None, "o": 5}))
    # an optional parameter given as None is not the same as leaving it at its (non-None) default
    for form in ("kw", "inst"):
        out.append(("G1", form, {"a": 7, "b": "z", "c": 0.0, "d": None, "o": None}))
        out.append(("G1", form, {"a": 7, "b": "z", "c": 0.0, "d": 0}))
    # values of different kinds that print alike in an untyped / union-typed field: unequal parameters, different names
    for tag in (1, "1", 0, "0", "None"):
        out.append(("G15", "kw", {"tag": tag, "anyv": None, "n": None}))
    for anyv in ("1", "None", "1.5"):
        out.append(("G15", "kw", {"tag": 0, "anyv": anyv, "n": None}))
    # sets whose elements are only partially ordered (sets of sets), written in two orders: one value, one name, in every process
    out.append(("G10", "kw", {"n": 0, "fs": [["ab", "cd"], ["ef"], ["gh", "ij", "kl"], ["mn"]]}))
    out.append(("G10", "kw", {"n": 0, "fs": [["mn"], ["gh", "kl", "ij"], ["ef"], ["cd", "ab"]]}))
    out.append(("G10", "kw", {"n": 0, "fs": [["ab"], ["ab", "cd"]]}))
    for dtxt in ("1", "1.0000000000000000000000000000001", "1.0000000000000000000000000000002", "1.00000000000000000000000000000010"):
        out.append(("G16", "kw", {"d": dtxt, "n": 0}))
    for f in ("pts", "fs", "inner"):
        for v in ([0.0, 1.0], [-0.0, 1.0], [0.0], [-0.0]):
            out.append(("G17", "kw", {f: v}))
    for v in (0.0, -0.0):
        out.append(("G17", "kw", {"nt": v}))
        out.append(("G17", "kw", {"bm": [v, []]}))
        out.append(("G17", "kw", {"bm": [1.0, [v]]}))
    out.append(("G17", "kw", {"nest": [[0.0], [1.0]]}))
    out.append(("G17", "kw", {"nest": [[-0.0], [1.0]]}))
    for x in ("XDZ1", "XDZ2", "XDZ3"):
        out.append(("G6", "kw", {"m": x, "n": 0}))
    for x in ("ANON1", "ANON2", "XRES", "XRESW", "XA", "XB", "PM1", "PM2", "NM1", "NM2", "PNP1", "PNP2", "NPN1", "NPN2"):
        out.append(("G6", "kw", {"m": x, "n": 0}))
    for gname in ("G1", "aux:G1", "G9", "aux:G9"):
        out.append(("G7", "kw", {"g": gname, "n": 0}))
    # the documented collision pair of readable names
    out.append(("G2", "kw", {"a": "x b=y", "b": "z"}))
    out.append(("G2", "kw", {"a": "x", "b": "y b=z"}))
    return out


_EXTS = {}


def realise(gens, P, g, kw):
    """Plain-data kwargs -> real parameter values."""
    import hdl21 as h

    kw = dict(kw)
    if g == "G3":
        kw["e"] = Color[kw["e"]]
    if g == "G4":
        kw["inner"] = P["P1"](**kw["inner"])
    if g == "G5":
        kw["v"] = h.Prefixed(number=Decimal(kw["v"][0]), prefix=h.Prefix[kw["v"][1]])
        if isinstance(kw["s"], list):
            kw["s"] = h.Prefixed(number=Decimal(kw["s"][0]), prefix=h.Prefix[kw["s"][1]])
    if g == "G6":
        m = kw["m"]
        if isinstance(m, list):
            kw["m"] = gens[m[0]](**m[1])
        elif m == "R1":
            kw["m"] = h.R(r=1)
        elif m == "R2":
            kw["m"] = h.R(r=2)
        elif isinstance(m, str) and m[:-1] in ("PM", "NM", "PNP", "NPN"):
            from hdl21.primitives import MosType, BipolarType

            kw["m"] = {"PM1": lambda: h.Pmos(), "PM2": lambda: h.Mos(tp=MosType.PMOS), "NM1": lambda: h.Nmos(), "NM2": lambda: h.Mos(),
                       "PNP1": lambda: h.Pnp(), "PNP2": lambda: h.Bipolar(tp=BipolarType.PNP), "NPN1": lambda: h.Npn(), "NPN2": lambda: h.Bipolar()}[m]()
        elif m in ("ANON1", "ANON2"):
            if m not in _EXTS:
                am = h.Module()
                am.add(h.Port(width=1 if m == "ANON1" else 2), name="a")
                _EXTS[m] = am
            kw["m"] = _EXTS[m]
        elif m in ("XRES", "XRESW"):
            if m not in _EXTS:
                fld = "wl" if m == "XRES" else "l"
                pc = h.paramclass(type("ResParams" + m, (), {fld: h.Param(dtype=int, desc=fld, default=1)}))
                _EXTS[m] = h.ExternalModule(name="res" if m == "XRES" else "resw", domain="pdkq", port_list=[h.Input(name="a"), h.Output(name="z")], paramtype=pc)
            kw["m"] = _EXTS[m]()
        elif m in ("XDZ1", "XDZ2", "XDZ3"):
            if "XDZ" not in _EXTS:
                _EXTS["XDZ"] = h.ExternalModule(name="dz", domain="pdkq", port_list=[h.Input(name="a"), h.Output(name="z")], paramtype=dict)
            kw["m"] = _EXTS["XDZ"](**{"x": {"XDZ1": 0.0, "XDZ2": -0.0, "XDZ3": 1.0}[m], "v": ({"XDZ1": 0.0, "XDZ2": -0.0, "XDZ3": 0.0}[m], 2.0)})
        elif m in ("XA", "XB"):
            # the same device name from two libraries (domains): different external modules
            if m not in _EXTS:
                _EXTS[m] = h.ExternalModule(name="inv", domain="lib" + m[1], port_list=[h.Input(name="a"), h.Output(name="z")], paramtype=h.HasNoParams)
            kw["m"] = _EXTS[m]()
    if g == "G17":
        if "pts" in kw:
            kw["pts"] = tuple(kw["pts"])
        if "fs" in kw:
            kw["fs"] = frozenset(kw["fs"])
        if "inner" in kw:
            kw["inner"] = P["PEI"](pts=tuple(kw["inner"]))
        if "nest" in kw:
            kw["nest"] = tuple(tuple(x) for x in kw["nest"])
        if "nt" in kw:
            kw["nt"] = _NT(x=kw["nt"])
        if "bm" in kw:
            kw["bm"] = _BM(x=kw["bm"][0], t=tuple(kw["bm"][1]))
    if g == "G16":
        kw["d"] = Decimal(kw["d"])
    if g == "G12":
        kw["i"] = h.Prefixed(number=Decimal(kw["i"][0]), prefix=h.Prefix[kw["i"][1]])
    if g == "G10":
        if "t" in kw:
            kw["t"] = tuple(kw["t"])
        if "u" in kw:
            kw["u"] = P["P1"](**kw["u"])
        if "fs" in kw:
            kw["fs"] = frozenset(frozenset(x) if isinstance(x, list) else x for x in kw["fs"])
    if g == "G7" and kw["g"] is not None:
        if kw["g"].startswith("aux:"):  # a DIFFERENT generator with the same function name, defined in another file
            from hv.checks import c09_aux

            kw["g"] = getattr(c09_aux, kw["g"][4:])
        else:
            kw["g"] = gens[kw["g"]]
    return kw


def paramclass_of(g):
    return {"G1": "P1", "G2": "P2", "G3": "P3", "G4": "P4", "G5": "P5", "G6": "P6", "G7": "P7", "G8": "P8", "G9": "P1", "G10": "P9", "G11": "PA", "G12": "PB", "G13": "P8", "G14": "P8", "G15": "PC", "G16": "PD", "G17": "PE"}[g]


def run_program(value_seed: int, order_seed: int, n: int):
    """Returns (events, runs, gens): events = [{i, gen, form, kw, params, module, name_at_return}]"""
    import hdl21 as h
    from hdl21.qualname import qualname

    gens, P, runs = define()
    cl = calls(value_seed, n)
    order = list(range(len(cl)))
    random.Random(order_seed).shuffle(order)
    events = []
    for i in order:
        g, form, kw = cl[i]
        try:
            real = realise(gens, P, g, kw)
            params = P[paramclass_of(g)](**real)
            if form == "kw":
                m = gens[g](**real)
            else:
                m = gens[g](params)
            events.append({"i": i, "gen": g, "form": form, "kw": kw, "params": params, "module": m, "name_at_return": m.name,
                           "qualname_at_return": qualname(m)})
            inner = getattr(m, "_c09_inner", None)
            if inner is not None:  # a module of a built-in generator, observed now and again at the end
                events.append({"i": 100000 + i, "gen": "Series*", "form": "inner", "kw": kw, "params": ("series", kw["depth"]), "module": inner,
                               "name_at_return": inner.name, "qualname_at_return": qualname(inner)})
        except Exception as e:
            events.append({"i": i, "gen": g, "form": form, "kw": kw, "error": f"{type(e).__name__}: {str(e)[:100]}"})
            if gens["__last__"][0] is not None and gens["__last__"][0][0] == g:
                runs.pop(gens["__last__"][0], None)  # (the body ran, the call failed after it: not a memoised result)
    return events, runs, gens


def main():
    sys.path.insert(0, __file__.rsplit("/hv/", 1)[0])
    from hv import env

    env.bootstrap()
    vs, os_, n = int(sys.argv[1]), int(sys.argv[2]), int(sys.argv[3])
    events, runs, gens = run_program(vs, os_, n)
    out = {}
    for e in events:
        if "module" in e:
            out[str(e["i"])] = {"final_name": e["module"].name, "name_at_return": e["name_at_return"]}
        else:
            out[str(e["i"])] = {"error": e["error"]}
    print("C09PROG " + json.dumps(out, sort_keys=True))


if __name__ == "__main__":
    main()
