"""
C05 -- names invented during elaboration never capture the designer's names.

(a) M-name: invariant at the mechanism -- while a pass runs, `_add` must not bind a name that already denotes a
    different object of the module;
(b) boundary oracle -- a colliding design either raises or exports a circuit whose leaf-level partition equals R1's,
    leaves being identified by their unique tags (names are irrelevant to the comparison, so a legitimately fresh name
    never alarms) -- hv.pkgread.compare_renamed.

Workload: C01 designs, renamed adversarially: R1 predicts every name the elaborator will invent (inst_port for implicit
and no-connect signals, no-connect names, bundle_member paths, arr_k, pair_p / pair_n, each with 0-2 trailing
underscores) and a designer signal / instance / bundle / second no-connect is given exactly that name, declared before
or after the colliding construct.
"""

from __future__ import annotations

import itertools

import copy

from .. import build, oracle, pkgread, refsem, spec
from ..monitors import passmon
from ..runner import jhash

LEVEL = "exploration"
RULE = ("variants = (base design from the structural kernels and seeded random hierarchies) x (module) x (name the elaborator "
        "would invent in that module, with 0..2 trailing underscores, or an existing designer name for the named-no-connect "
        "kind) x (colliding object kind: internal signal + observer, leaf instance, named no-connect, bundle instance, "
        "renamed existing signal) x (declared first / last); sampled per base. distinct = variant hash; non-trivial = the "
        "colliding name really equals a name R1 predicts the elaborator to invent")
ASSUMPTIONS = [
    "a clash may be resolved by a fresh name or by raising; raising is counted, not alarmed",
    "only names derivable from today's naming rules and their trailing-underscore variants are tried",
    "rebinding an existing name to a different object during a pass IS 'replaced/shadowed' (M-name)",
]
REQUIRED_COUNTERS = ["M-name.adds-in-pass", "oracle.compared"]
MIN_EVALS = 800
MIN_NONTRIVIAL = 500


def invented_names(design, m):
    """{name: why} -- every name elaboration may invent inside module m."""
    out = {}
    for b in m.get("buns", []) + [bp[:2] for bp in m.get("bports", [])]:
        for path, w in refsem.bundle_leaves(design, b[1]):
            out[refsem.flatname(b[0], *path)] = f"flattened member of bundle {b[0]}"
    for i in m["insts"]:
        sp, bp = refsem.iface(design, i["of"])
        kind = i.get("kind", "single")
        if kind == "array":
            for k in range(i["n"]):
                out[f"{i['name']}_{k}"] = f"element of array {i['name']}"
        if kind == "pair":
            out[f"{i['name']}_p"] = out[f"{i['name']}_n"] = f"member of pair {i['name']}"
        for port in list(sp) + list(bp):
            e = i["conns"].get(port)
            if e is None or e[0] == "nc":
                if e is not None and len(e) > 2 and e[2]:
                    out[e[2]] = "named no-connect"
                else:
                    out[f"{i['name']}_{port}"] = f"implicit signal of {i['name']}.{port}"
                    if port in bp:
                        for path, w in refsem.bundle_leaves(design, bp[port]):
                            out[refsem.flatname(f"{i['name']}_{port}", *path)] = f"flattened implicit bundle of {i['name']}.{port}"
    return out


def designer_names(m):
    return ([p[0] for p in m["ports"]] + [s[0] for s in m["sigs"]] + [b[0] for b in m.get("buns", [])] +
            [b[0] for b in m.get("bports", [])] + [i["name"] for i in m["insts"]])


def make_variant(design, mname, N, kind, first, rng):
    d = copy.deepcopy(design)
    m = refsem.get_module(d, mname)
    names = set(designer_names(m))
    tagbase = 900 + rng.randint(0, 50)
    extras = []
    if kind == "sig":
        if N in names:
            return None
        m["sigs"].append([N, 1])
        m["insts"].append({"name": "zqobs", "kind": "single", "of": ["leaf", "E5"], "tag": tagbase, "conns": {"z": ["sig", N]}})
        extras = [N, "zqobs"]
    elif kind == "inst":
        if N in names:
            return None
        m["sigs"].append(["zqnet", 1])
        m["insts"].append({"name": N, "kind": "single", "of": ["leaf", "E5"], "tag": tagbase, "conns": {"z": ["sig", "zqnet"]}})
        extras = ["zqnet", N]
    elif kind == "nc":
        m["sigs"].append(["zqnet", 1])
        m["insts"].append({"name": "zqnc", "kind": "single", "of": ["leaf", "E1"], "tag": tagbase,
                           "conns": {"a": ["nc", 7777, N], "b": ["sig", "zqnet"]}})
        m["insts"].append({"name": "zqo2", "kind": "single", "of": ["leaf", "E5"], "tag": tagbase + 1, "conns": {"z": ["sig", "zqnet"]}})
        extras = ["zqnet", "zqnc", "zqo2"]
    elif kind == "bun":
        if N in names:
            return None
        m.setdefault("buns", []).append([N, "B1"])
        m["insts"].append({"name": "zqbo", "kind": "single", "of": ["leaf", "E2"], "tag": tagbase,
                           "conns": {"x": ["bref", N, ["y"]], "y": ["bref", N, ["x"]]}})
        extras = [N, "zqbo"]
    elif kind in ("arr", "pair"):
        # a designer ARRAY / PAIR with the colliding name (it is dissolved into elements before later passes invent names)
        if N in names:
            return None
        m["sigs"] += [["zqnet", 1], ["zqn2", 1]]
        m["insts"].append({"name": N, "kind": "array" if kind == "arr" else "pair", "n": 2, "of": ["leaf", "E1"], "tag": tagbase,
                           "conns": {"a": ["sig", "zqnet"], "b": ["sig", "zqn2"]}})
        m["insts"].append({"name": "zqo3", "kind": "single", "of": ["leaf", "E1"], "tag": tagbase + 1, "conns": {"a": ["sig", "zqnet"], "b": ["sig", "zqn2"]}})
        extras = ["zqnet", "zqn2", N, "zqo3"]
    elif kind == "port":
        # a designer PORT of a sub-module with the colliding name; every parent instance connects it
        if N in names or mname == d["top"]:
            return None
        m["ports"].append([N, 1, "none"])
        m["insts"].append({"name": "zqpo", "kind": "single", "of": ["leaf", "E5"], "tag": tagbase, "conns": {"z": ["sig", N]}})
        k = 0
        for pm in d["modules"]:
            for inst in pm["insts"]:
                if inst["of"] == ["mod", mname]:
                    if inst.get("kind", "single") != "single":
                        return None
                    sn = f"zqp{k}"
                    pm["sigs"].append([sn, 1])
                    inst["conns"][N] = ["sig", sn]
                    pm["insts"].append({"name": f"zqpobs{k}", "kind": "single", "of": ["leaf", "E5"], "tag": tagbase + 1 + k, "conns": {"z": ["sig", sn]}})
                    k += 1
        extras = [N, "zqpo"]
    elif kind == "rename":
        if N in names or not m["sigs"]:
            return None
        old = rng.choice(m["sigs"])[0]

        def ren(e):
            if e[0] == "sig":
                return ["sig", N] if e[1] == old else e
            if e[0] == "slice":
                return ["slice", ren(e[1]), e[2]]
            if e[0] == "cat":
                return ["cat"] + [ren(p) for p in e[1:]]
            if e[0] == "anon":
                return ["anon", {k: ren(v) for k, v in e[1].items()}] + e[2:]
            return e

        for s in m["sigs"]:
            if s[0] == old:
                s[0] = N
        for i in m["insts"]:
            i["conns"] = {p: ren(e) for p, e in i["conns"].items()}
        extras = [N]
    else:
        raise ValueError(kind)
    if first:
        m["order"] = extras
    m["style"] = "proc"
    return d


def judge(rec, label, design, nontrivial, case):
    refsem.ELEM_SEP = "#"
    try:
        try:
            ref = refsem.flatten(design)
        except refsem.Invalid as e:
            rec.count("generator.invalid-variant")
            return
        rec.case(key=jhash(design), nontrivial=nontrivial, sample=case if rec.evaluations % 500 == 3 else None)
        passmon._state["case"] = case
        passmon.set_label(label)
        try:
            built = build.build(design)
            import hdl21 as h

            pkg = h.to_proto(built.top)
        except Exception as e:
            rec.count("outcome.raised")
            rec.hist("raise_signatures", oracle.exc_sig(e)[:80])
            return
        finally:
            passmon._state["case"] = None
        try:
            obs = pkgread.flatten(pkg)
        except pkgread.ReadError as e:
            rec.violation("collision-unreadable-package", f"[{label}] the exported package is not a circuit: {e}", case=case)
            return
        diffs = pkgread.compare_renamed(ref, obs)
        if diffs is None:
            rec.count("oracle.search-too-large")
            return
        rec.count("oracle.compared")
        if diffs:
            rec.violation("collision-changes-circuit", f"[{label}] exported circuit differs from the design: " + "; ".join(diffs[:3]),
                          case=case, **case.get("flags", {}))
    finally:
        refsem.ELEM_SEP = "_"


def upcase(design):
    """The same design with every module-local instance, internal signal and internal bundle-instance name in upper case (so that
    the names the elaborator invents from them contain upper-case letters)."""
    d = copy.deepcopy(design)
    for m in d["modules"]:
        smap = {s[0]: s[0].upper() for s in m["sigs"]}
        bmap = {b[0]: b[0].upper() for b in m.get("buns", [])}
        imap = {i["name"]: i["name"].upper() for i in m["insts"]}
        taken = {p[0] for p in m["ports"]} | {b[0] for b in m.get("bports", [])}
        if (set(smap.values()) | set(bmap.values()) | set(imap.values())) & taken or \
                len(set(smap.values()) | set(bmap.values()) | set(imap.values())) != len(smap) + len(bmap) + len(imap):
            continue  # (would create a clash of its own)

        def rw(e):
            k = e[0]
            if k == "sig":
                return ["sig", smap.get(e[1], e[1])]
            if k == "bun":
                return ["bun", bmap.get(e[1], e[1])] + e[2:]
            if k == "bref":
                return ["bref", bmap.get(e[1], e[1])] + e[2:]
            if k == "pref":
                return ["pref", imap.get(e[1], e[1])] + e[2:]
            if k == "slice":
                return ["slice", rw(e[1])] + e[2:]
            if k == "cat":
                return ["cat"] + [rw(x) for x in e[1:]]
            if k == "anon":
                return ["anon", {kk: rw(v) for kk, v in e[1].items()}] + e[2:]
            return e

        for s_ in m["sigs"]:
            s_[0] = smap[s_[0]]
        for b in m.get("buns", []):
            b[0] = bmap[b[0]]
        for i in m["insts"]:
            i["name"] = imap[i["name"]]
            i["conns"] = {p: rw(e) for p, e in i["conns"].items()}
        if m.get("order"):
            m["order"] = [smap.get(x, bmap.get(x, imap.get(x, x))) for x in m["order"]]
    return d


_ib = itertools.count()


def instance_bundle_probes(rec):
    """Instance bundles over designer-defined Bundles whose member names are awkward (`x` next to `x_`: the suffix the elaborator
    appends to dodge a clash), next to designer objects named like the replacement instances: every member gets its own instance,
    wired to its own member signal, and the designer's objects survive."""
    import hdl21 as h

    for members in (("x", "x_"), ("x_", "x"), ("x", "x_", "x__"), ("a", "a_b"), ("p", "n"), ("n_", "n")):
        for collider in (None, f"q_{members[0]}", f"q_{members[0]}_", f"q_{members[-1]}", f"q_{members[-1]}_"):
            for ckind in (("none",) if collider is None else ("inst", "sig")):
                for first in ((True,) if collider is None else (True, False)):
                    n = next(_ib)
                    rec.count("probe.instance-bundles")
                    case = {"kind": "probe", "what": "instance-bundle", "members": list(members), "collider": collider, "collider_kind": ckind, "declared_first": first}
                    label = f"instance bundle over members {members}, designer {ckind} named {collider!r}"
                    rec.case(key=jhash(case), nontrivial=True, sample=case if n % 40 == 0 else None)
                    passmon._state["case"] = case
                    passmon.set_label(label)
                    try:
                        B = h.Bundle(name=f"IbB{n}")
                        for m in members:
                            B.add(h.Signal(), name=m)
                        IB = h.InstanceBundleType(name=f"IbT{n}", bundle=B)
                        leaf = build.leaf_call("E2", 50)  # ports x (2 bits), y (1 bit)
                        top = h.Module(name=f"IbTop{n}")

                        def add_collider():
                            if ckind == "inst":
                                cx, cy = top.add(h.Signal(width=2), name="cx"), top.add(h.Signal(), name="cy")
                                top.add(h.Instance(of=build.leaf_call("E2", 51))(x=cx, y=cy), name=collider)
                            elif ckind == "sig":
                                sg = top.add(h.Signal(width=2), name=collider)
                                top.add(h.Instance(of=build.leaf_call("E2", 52))(x=sg, y=top.add(h.Signal(), name="cy")), name="cobs")

                        if first:
                            add_collider()
                        top.add(B(), name="b")
                        top.add(h.Signal(width=2), name="shared")
                        top.add(IB(leaf)(x=top.shared, y=top.b), name="q")
                        if not first:
                            add_collider()
                        pkg = h.to_proto(top)
                    except Exception as e:
                        rec.count("outcome.raised")
                        rec.hist("raise_signatures", oracle.exc_sig(e)[:80])
                        continue
                    finally:
                        passmon._state["case"] = None
                    insts = list(pkg.modules[-1].instances)
                    names = [i.name for i in insts]
                    tied = {}
                    for i in insts:
                        for c in i.connections:
                            if c.portname == "y" and c.target.WhichOneof("stype") == "sig" and c.target.sig.startswith("b_"):
                                tied.setdefault(c.target.sig, []).append(i.name)
                    want = {f"b_{m}" for m in members}
                    extra = 0 if ckind == "none" else 1
                    if len(set(names)) != len(names) or len(insts) != len(members) + extra or set(tied) != want or any(len(v) != 1 for v in tied.values()):
                        rec.violation("collision-changes-circuit", f"[{label}] the package holds instances {names}; member signals are tied to {tied} "
                                                                   f"(one replacement instance per member {sorted(want)} expected, and the designer's own objects)", case=case,
                                      collider=ckind, target="instance-bundle member")


def run(ctx, rec):
    passmon.attach(rec)
    rng = ctx.rng("c05")
    bases = [(l, d) for l, d in spec.structural_designs()]
    n_rand = 250 if ctx.quick else 1600
    for k in range(n_rand):
        bases.append((f"random #{k}", spec.random_design(rng, max_modules=3)))
    if ctx.nshards > 1:
        bases = bases[ctx.shard:: ctx.nshards]
    per_base = 8 if ctx.quick else 40
    kinds = ["sig", "inst", "nc", "bun", "rename", "port", "arr", "pair"]
    bases = [(l + " (upper-case names)", upcase(d)) if k % 3 == 1 else (l, d) for k, (l, d) in enumerate(bases)]
    for label, base in bases:
        # the unrenamed base under M-name (clashes among invented names themselves)
        judge(rec, label + " [base]", base, False, {"kind": "base", "label": label, "design": base})
        cands = []
        for m in base["modules"]:
            inv = invented_names(base, m)
            for N, why in inv.items():
                for us in ("", "_", "__"):
                    for kind in kinds:
                        cands.append((m["name"], N + us, kind, why, True))
            # a named no-connect equal to an existing designer signal / instance name
            for N in designer_names(m):
                cands.append((m["name"], N, "nc", "existing designer name", True))
        rng.shuffle(cands)
        # always: clashes with the flattened members of sub-modules' bundle PORTS (the parent must follow the fresh name)
        must = []
        for m in base["modules"][:-1]:
            for bp in m.get("bports", []):
                leaves = refsem.bundle_leaves(base, bp[1])[:2]
                for path, w in leaves:
                    N = refsem.flatname(bp[0], *path)
                    for kind in ("port", "sig", "inst"):
                        must.append((m["name"], N, kind, f"flattened member of bundle {bp[0]}", True))
        for (mname, N, kind, why, real) in must[:6] + cands[:per_base]:
            first = rng.random() < 0.5
            v = make_variant(base, mname, N, kind, first, rng)
            if v is None:
                continue
            rec.hist("collision_kinds", kind)
            rec.hist("collision_targets", why.split(" of ")[0])
            case = {"kind": "variant", "label": label, "module": mname, "name": N, "collider": kind, "declared_first": first,
                    "why": why, "design": v, "flags": {"collider": kind, "target": why.split(" of ")[0]}}
            judge(rec, f"{label} / {mname}: designer {kind} named '{N}' ({why})", v, real, case)
    if ctx.shard == 0:
        instance_bundle_probes(rec)
    if not ctx.quick and ctx.shard == 0:
        from .. import suite

        suite.run_suite(rec, "name", ["name-capture"])
    rec.exhaustive = False


def shards(ctx):
    return 16


def replay(ctx, rec, case):
    passmon.attach(rec)
    if case.get("kind") == "probe":
        instance_bundle_probes(rec)
        return
    judge(rec, case.get("label", "replay"), case["design"], True, case)
