"""
C14 -- Prefixed numbers are exact, totally ordered and hash-consistent.

Workload: all 441 ordered prefix pairs x a mantissa set (zero, +-1, 999.999.., 1..25 significant digits,
values straddling each prefix boundary, seeded random Decimals).  The per-call oracles are the M-pref
contracts on the real operators (exact Fraction arithmetic); the driver adds what relates several calls:
"never raises", trichotomy / coherence / antisymmetry of the six comparisons, equal values => equal and
equal hashes.
"""

from __future__ import annotations

import itertools
import subprocess
import operator
from decimal import Decimal
from fractions import Fraction

from .. import env
from ..monitors import pref as mpref

LEVEL = "exploration"
RULE = ("ordered pairs (a, b) of Prefixed numbers: all 21x21 prefix pairs (exhaustive) x mantissa pairs drawn from a "
        "fixed adversarial set (0, +-1, +-999.999, 1e3 / 1e-3 boundary values, 1..25 significant digits) plus seeded "
        "random Decimals and, per prefix pair, the pair denoting the SAME value in both prefixes and its neighbours "
        "one ulp-of-tolerance away; each pair drives + - * neg abs scale(all 21) scale() int float hash and the six "
        "comparisons in both orders. distinct = (number, prefix, number, prefix); non-trivial = prefixes differ or "
        "mantissas differ")
ASSUMPTIONS = [
    "exact value of Prefixed(number, prefix) is number * 10**prefix as a rational",
    "floats enter Prefixed through their shortest repr (the library's documented str() conversion)",
    "tolerance 1e-20 is read in units of the larger of the two prefixes (most lenient reading); below it only "
    "the order axioms are demanded",
    "int() = truncation toward zero; float() = correctly rounded nearest double of the exact value",
]
REQUIRED_COUNTERS = ["M-pref.+", "M-pref.*", "M-pref.r-", "M-pref.cmp<", "M-pref.scale", "M-pref.int", "M-pref.float", "driver.axioms", "driver.plain-number-ops", "history.used-before"]
MIN_EVALS = 2000
MIN_NONTRIVIAL = 1000

FIXED_MANTISSAS = [
    "0", "1", "-1", "999.999", "-999.999", "1000", "0.001", "999.9999999999999999999", "1000.000000000000000001",
    "1.5", "1500", "0.1", "3", "7E+5", "123456789", "9999999999999999999999999", "1.234567890123456789012345",
    "-0.3333333333333333333333333", "1E-7", "25", "-2.50", "-0", "0.0", "-0.000", "0E+3", "1.0", "1.000", "1E+3", "10E+2",
]


NUMBERS = [3, Decimal("0.25"), "1e3", -7, 0, 2.5, 0.1, Decimal(0.1), 2.0 ** 60, Decimal(2 ** 60), 1e23, Decimal(int(1e23)),
           1.0000000000000002e17, Decimal(int(1.0000000000000002e17)), Decimal("1E+3"), Decimal("-0"), 10 ** 30, "-2.50"]


def rand_decimal(rng) -> Decimal:
    nd = rng.randint(1, 25)
    digits = str(rng.randint(1, 9)) + "".join(str(rng.randint(0, 9)) for _ in range(nd - 1))
    exp = rng.randint(-nd - 6, 8)
    sign = "-" if rng.random() < 0.4 else ""
    return Decimal(f"{sign}{digits}E{exp}")


def call(rec, sig_prefix, what, case, f):
    """Run f(); an exception is a violation of 'never raises' (comparisons) or of exactness (arithmetic)."""
    try:
        return True, f()
    except Exception as e:  # noqa
        rec.violation(f"{sig_prefix}:{type(e).__name__}", f"{what} raised {type(e).__name__}: {str(e)[:120]}", case=case)
        return False, None


def judge_pair(rec, a, b, full=True, derived=True, case=None):
    """All operators on one ordered pair."""
    import operator as op

    case = case or {"kind": "pair", "a": mpref.case_of(a), "b": mpref.case_of(b)}
    ea, eb = mpref.exact(a), mpref.exact(b)
    da, db = mpref._desc(a), mpref._desc(b)

    # arithmetic: results are judged by the contracts; the driver only turns exceptions into records
    call(rec, "arith-raises:+", f"({da}) + ({db})", case, lambda: a + b)
    call(rec, "arith-raises:-", f"({da}) - ({db})", case, lambda: a - b)
    call(rec, "arith-raises:*", f"({da}) * ({db})", case, lambda: a * b)
    if full and derived:
        # derived values: the same number reached by two routes (signed zeros, different exponents of one mantissa)
        o1, r1 = call(rec, "arith-raises:-", f"({da}) - ({db})", case, lambda: a - b)
        o2, r2 = call(rec, "arith-raises:neg", f"-(({db}) - ({da}))", case, lambda: -(b - a))
        o3, r3 = call(rec, "arith-raises:*", f"({da}) * ({db})", case, lambda: a * b)
        o4, r4 = call(rec, "arith-raises:*", f"({db}) * ({da})", case, lambda: b * a)
        from hdl21.prefix import Prefixed as _P

        if o1 and o2 and isinstance(r1, _P) and isinstance(r2, _P):
            rec.count("driver.derived-pairs")
            judge_pair(rec, r1, r2, full=False)
        if o3 and o4 and isinstance(r3, _P) and isinstance(r4, _P):
            rec.count("driver.derived-pairs")
            judge_pair(rec, r3, r4, full=False)
            z = mk("0", Prefix_UNIT())
            if mpref.exact(r3) == 0:
                judge_pair(rec, r3, z, full=False)
    if full:
        call(rec, "arith-raises:neg", f"-({da})", case, lambda: -a)
        call(rec, "arith-raises:abs", f"abs({da})", case, lambda: abs(a))
        call(rec, "arith-raises:scale", f"({da}).scale()", case, lambda: a.scale())
        call(rec, "conv-raises:int", f"int({da})", case, lambda: int(a))
        call(rec, "conv-raises:float", f"float({da})", case, lambda: float(a))

    # comparisons
    res = {}
    ok = True
    for name, f in (("<", op.lt), ("<=", op.le), ("==", op.eq), ("!=", op.ne), (">", op.gt), (">=", op.ge)):
        o1, r1 = call(rec, "cmp-raises", f"({da}) {name} ({db})", case, lambda f=f: f(a, b))
        o2, r2 = call(rec, "cmp-raises", f"({db}) {name} ({da})", case, lambda f=f: f(b, a))
        ok = ok and o1 and o2
        res[name] = (r1, r2)
    if ok:
        rec.count("driver.axioms")
        lt, le, eq, ne, gt, ge = (bool(res[k][0]) for k in ("<", "<=", "==", "!=", ">", ">="))
        problems = []
        if [lt, eq, gt].count(True) != 1:
            problems.append(f"trichotomy: lt={lt} eq={eq} gt={gt}")
        if le != (lt or eq):
            problems.append(f"<= ({le}) != (< or ==)")
        if ge != (gt or eq):
            problems.append(f">= ({ge}) != (> or ==)")
        if ne != (not eq):
            problems.append(f"!= ({ne}) != not ==")
        if lt != bool(res[">"][1]):
            problems.append("a<b differs from b>a")
        if gt != bool(res["<"][1]):
            problems.append("a>b differs from b<a")
        if eq != bool(res["=="][1]):
            problems.append("a==b differs from b==a")
        if le != bool(res[">="][1]):
            problems.append("a<=b differs from b>=a")
        for p in problems:
            rec.violation("cmp-axiom:" + p.split(":")[0].split(" ")[0], f"({da}) vs ({db}): {p}", case=case)
        if ea == eb:
            rec.count("driver.same-value")
            if not eq:
                rec.violation("same-value-unequal", f"({da}) and ({db}) denote the same value but == is False", case=case)
            ok_h, hs = call(rec, "hash-raises", f"hash of ({da}), ({db})", case, lambda: (hash(a), hash(b)))
            if ok_h and hs[0] != hs[1]:
                rec.violation("hash-inconsistent",
                              f"({da}) and ({db}) denote the same value and compare equal but their hashes differ",
                              case=case)


def _other_prefix(p):
    from hdl21.prefix import Prefix

    return Prefix.MEGA if p is not Prefix.MEGA else Prefix.MILLI


def _assigned(x, field, value):
    """A copy of `x` that is used (hashed, converted) and has `field` assigned afterwards."""
    y = x.model_copy()
    for use in (hash, float, lambda v: v == v):
        try:
            use(y)
        except Exception:
            pass
    setattr(y, field, value)
    return y


def used_before(rec, a, light=False):
    """An operand that has been USED (hashed, converted, compared, named) before it enters an operation: every result must be
    indistinguishable from the same value built afresh - by ==, hash, int(), float() and the order relations."""
    import copy as _copy
    from hdl21.prefix import Prefixed as _P

    for use in (hash, float, int, str, repr, lambda x: x < 1, lambda x: x == x, lambda x: x.scale()):
        try:
            use(a)
        except Exception:
            pass
    da = mpref._desc(a)
    for name, f in (("neg", lambda x: -x), ("abs", abs), ("scale", lambda x: x.scale()), ("plus-zero", lambda x: x + 0), ("times-one", lambda x: x * 1),
                    ("double-neg", lambda x: -(-x)), ("copy", _copy.copy), ("deepcopy", _copy.deepcopy), ("model_copy", lambda x: x.model_copy()),
                    ("minus-self", lambda x: x - x), ("times-minus-one", lambda x: x * -1),
                    # fields of a (used) copy edited, by update and by assignment: the value is the one of the new fields
                    ("copy-with-other-prefix", lambda x: x.model_copy(update=dict(prefix=_other_prefix(x.prefix)))),
                    ("copy-with-other-number", lambda x: x.model_copy(update=dict(number=x.number + 1))),
                    ("assign-prefix", lambda x: _assigned(x, "prefix", _other_prefix(x.prefix))),
                    ("assign-number", lambda x: _assigned(x, "number", x.number * 2 + 1))):
        case = {"kind": "used", "a": mpref.case_of(a), "op": name}
        ok, r = call(rec, f"arith-raises:{name}", f"{name}({da}) after use", case, lambda f=f: f(a))
        if not ok or not isinstance(r, _P):
            continue
        rec.count("history.used-before")
        fresh = mk(r.number, r.prefix)
        if light and name in ("plus-zero", "times-one", "deepcopy", "minus-self", "times-minus-one"):
            continue
        judge_pair(rec, r, fresh, full=True, derived=False, case=case)


def argument_probes(rec):
    """Mis-given arguments must not silently change a value by a power of ten; comparisons of finite numbers return, whatever the exponent."""
    from hdl21.prefix import Prefixed, Prefix, e as _e

    K = Prefix.KILO
    x = mk("1", K)
    for what, f, ok in (
        ("Prefixed(number=1, prefx=KILO)", lambda: Prefixed(number=Decimal(1), prefx=K), lambda r: mpref.exact(r) == 1000),
        ("(1*KILO).scale(6)", lambda: x.scale(6), lambda r: r.prefix == Prefix.MEGA),
        ("(1*KILO).scale('MEGA')", lambda: x.scale("MEGA"), lambda r: r.prefix == Prefix.MEGA),
        ("(1*KILO).scale(e(6))", lambda: x.scale(_e(6)), lambda r: r.prefix == Prefix.MEGA),
        ("(1*KILO).scale(True)", lambda: x.scale(True), lambda r: r.prefix == Prefix.DECA),
    ):
        rec.count("probe.arguments")
        try:
            r = f()
        except Exception:
            continue  # refused: fine
        if not ok(r):
            rec.violation("argument-silently-ignored", f"{what} was accepted and returned {mpref._desc(r)}: the argument was ignored", case={"kind": "probe", "what": what})
    # comparisons of finite numbers with huge exponents: in a child process of its own, WITHOUT the contracts (their oracle writes the
    # exact value out as a fraction) and under a watchdog and an address-space limit (the defect was a MemoryError / minutes of work)
    code = ("import sys, resource; resource.setrlimit(resource.RLIMIT_AS, (4 << 30, 4 << 30)); sys.path.insert(0, %r)\n"
            "from hv import env; env.bootstrap()\n"
            "from decimal import Decimal; from hdl21.prefix import Prefixed, Prefix\n"
            "K = Prefix.KILO; x = Prefixed(number=Decimal(1), prefix=K); out = []\n"
            "long_ = Prefixed(number=Decimal('1.234567890123456789012345'), prefix=Prefix.UNIT)\n"
            "for text in ('1E+999999999999999', '-3E+99999999999', '1E+400000000'):\n"
            "    big = Prefixed(number=Decimal(text), prefix=K); same = Prefixed(number=Decimal(text), prefix=K)\n"
            "    for name, f, want in (('==', lambda: big == same, True), ('<', lambda: big < x, text[0] == '-'), ('>=', lambda: x >= big, text[0] == '-'), ('!=', lambda: big != x, True), ('<long', lambda: big < long_, text[0] == '-'), ('long<=', lambda: long_ <= big, text[0] != '-')):\n"
            "        try:\n"
            "            r = f(); out.append((text, name, 'ok' if bool(r) == want else 'wrong:%%r' %% (r,)))\n"
            "        except BaseException as e:\n"
            "            out.append((text, name, 'raised:' + type(e).__name__))\n"
            "print('HUGE', out)\n") % str(env.VERIF)
    rec.count("probe.huge-exponent")
    try:
        p = subprocess.run([env.PY, "-c", code], capture_output=True, text=True, timeout=120, env=env.child_env({env.GUARD: "0"}), cwd=str(env.VERIF))
        line = [l for l in p.stdout.splitlines() if l.startswith("HUGE ")]
        if not line:
            rec.violation("cmp-raises:process-died", f"comparing finite numbers with huge exponents killed the process (exit {p.returncode}): {p.stderr[-160:]}",
                          case={"kind": "probe", "what": "huge-exponent"})
        else:
            import ast

            for text, name, res in ast.literal_eval(line[0][5:]):
                if res != "ok":
                    rec.violation("cmp-raises:" + res.split(":")[1] if res.startswith("raised") else "cmp-wrong:" + name,
                                  f"({text}*KILO) {name} ...: comparison of finite numbers {res}", case={"kind": "probe", "what": text})
    except subprocess.TimeoutExpired:
        rec.violation("cmp-raises:timeout", "comparing finite numbers with huge exponents did not return within 120 s", case={"kind": "probe", "what": "huge-exponent"})


def Prefix_UNIT():
    from hdl21.prefix import Prefix

    return Prefix.UNIT


def mk(number, prefix):
    from hdl21.prefix import Prefixed

    return Prefixed(number=Decimal(number) if not isinstance(number, Decimal) else number, prefix=prefix)


def run(ctx, rec):
    from hdl21.prefix import Prefix

    mpref.attach(rec)
    rng = ctx.rng("c14")
    prefixes = list(Prefix)
    fixed = [Decimal(m) for m in FIXED_MANTISSAS]
    per_pair = 10 if ctx.quick else 150
    n_rand = 4 if ctx.quick else 100

    pairs = list(itertools.product(prefixes, prefixes))
    if ctx.nshards > 1:
        pairs = pairs[ctx.shard:: ctx.nshards]
    seen = 0
    for pa, pb in pairs:
        mpairs = []
        # (i) the same value written in both prefixes, and neighbours just across the tolerance
        shift = pa.value - pb.value
        mpairs += [(Decimal("0"), Decimal("-0")), (Decimal("-0.0"), Decimal("0E+2")), (Decimal("1.0"), Decimal("1").scaleb(shift))]
        for m in ("1", "2.5", "-999", "1000"):
            d = Decimal(m)
            same = d.scaleb(shift)
            mpairs.append((d, same))
            eps = Decimal(1).scaleb(-19)
            mpairs.append((d, same + eps.scaleb(max(shift, 0))))
            # near ties INSIDE the tolerance (1e-21 of either operand's unit): whatever the verdict, the six operators must agree
            mpairs.append((d + Decimal("1E-21"), same))
            mpairs.append((d, same + Decimal("1E-21")))
            mpairs.append((d - Decimal("4E-21"), same))
        # ... and mantissas far below one unit of a LARGE prefix: thousands apart in value, 1e-21 apart as written
        for tiny in ("4E-21", "5E-20", "1E-19", "-3E-20"):
            mpairs.append((Decimal(tiny), Decimal("0")))
            mpairs.append((Decimal("1") + Decimal(tiny), Decimal("1").scaleb(shift)))
        # (ii) fixed adversarial mantissas
        pool = [(x, y) for x in fixed for y in fixed]
        mpairs += rng.sample(pool, per_pair)
        # (iii) random decimals
        mpairs += [(rand_decimal(rng), rand_decimal(rng)) for _ in range(n_rand)]
        for (ma, mb) in mpairs:
            a, b = mk(ma, pa), mk(mb, pb)
            key = (str(ma), pa.name, str(mb), pb.name)
            rec.case(key=key, nontrivial=(pa is not pb or ma != mb),
                     sample={"a": f"{ma}*{pa.name}", "b": f"{mb}*{pb.name}"} if seen % 997 == 0 else None)
            seen += 1
            judge_pair(rec, a, b, derived=(not ctx.quick or seen % 3 == 0))
        # operands that were used before they are operated on
        if ctx.quick:
            used_before(rec, mk(rng.choice(fixed), pa) if seen % 2 else mk(rand_decimal(rng), pb), light=True)
        else:
            used_before(rec, mk(rng.choice(fixed), pa))
            used_before(rec, mk(rand_decimal(rng), pb))
        # every rescaling of one value per pair (21 targets)
        a = mk(rng.choice(fixed), pa)
        for pt in prefixes:
            call(rec, "arith-raises:scale", f"({mpref._desc(a)}).scale({pt.name})", {"kind": "scale", "a": mpref.case_of(a), "to": pt.name},
                 lambda pt=pt: a.scale(pt))
        # number * Prefix and Prefixed * Prefix forms
        call(rec, "arith-raises:prefix*", f"{ma} * {pb.name}", {"kind": "prefixmul", "a": mpref.case_of(ma), "p": pb.name}, lambda: ma * pb)
        call(rec, "arith-raises:prefix*", f"({mpref._desc(a)}) * {pb.name}", {"kind": "prefixmul", "a": mpref.case_of(a), "p": pb.name}, lambda: a * pb)
        # multiplication by an Exponent made of prefixes (x * e(k), x * (K * K), x * (K / m)): exact, whatever the mantissa's length
        from hdl21.prefix import e as _e

        long_a = mk(Decimal("1.000000000000000000000000000001"), pa) + mk(rng.choice(fixed), pb)  # > 28 significant digits
        for k in (-9, -3, 3, 6, pa.value - pb.value):
            rec.count("driver.exponent-ops")
            ok_e, r = call(rec, "arith-raises:*exp", f"({mpref._desc(long_a)}) * e({k})", {"kind": "expmul", "a": mpref.case_of(long_a), "k": k}, lambda k=k: long_a * _e(k))
            if ok_e and mpref.exact(r) != mpref.exact(long_a) * Fraction(10) ** k:
                rec.violation("arith-inexact:*exp", f"({mpref._desc(long_a)}) * e({k}) returned {mpref._desc(r)}: not the exact product",
                              case={"kind": "expmul", "a": mpref.case_of(long_a), "k": k})
        # Prefixed (+|-|*) plain numbers, in both operand orders (the reflected operators), compared too.  The list holds pairs
        # that Python hashes and compares equal although they enter Prefixed differently (a float through its repr, the equal
        # Decimal exactly): a float first, then "the same" Decimal
        for other in NUMBERS:
            c = {"kind": "num", "a": mpref.case_of(a), "b": mpref.case_of(other)}
            da = mpref._desc(a)
            rec.count("driver.plain-number-ops")
            call(rec, "arith-raises:+num", f"({da}) + {other!r}", c, lambda o=other: a + o)
            call(rec, "arith-raises:*num", f"({da}) * {other!r}", c, lambda o=other: a * o)
            call(rec, "arith-raises:-num", f"({da}) - {other!r}", c, lambda o=other: a - o)
            call(rec, "arith-raises:num+", f"{other!r} + ({da})", c, lambda o=other: o + a)
            call(rec, "arith-raises:num*", f"{other!r} * ({da})", c, lambda o=other: o * a)
            ok_r, r = call(rec, "arith-raises:num-", f"{other!r} - ({da})", c, lambda o=other: o - a)
            ok_s, r2 = call(rec, "arith-raises:-num", f"({da}) - {other!r}", c, lambda o=other: a - o)
            if ok_r and ok_s and mpref.exact(r) is not None and mpref.exact(r2) is not None and mpref.exact(r) != -mpref.exact(r2):
                rec.violation("reflected-subtraction-wrong", f"{other!r} - ({da}) = {mpref._desc(r)} but ({da}) - {other!r} = {mpref._desc(r2)}", case=c)
            for name, f in (("<", operator.lt), ("==", operator.eq), (">", operator.gt)):
                call(rec, "cmp-raises", f"({da}) {name} {other!r}", c, lambda f=f, o=other: f(a, o))
                call(rec, "cmp-raises", f"{other!r} {name} ({da})", c, lambda f=f, o=other: f(o, a))
    if ctx.shard == 0:
        argument_probes(rec)
    if not ctx.quick and ctx.shard == 0:
        from .. import suite

        suite.run_suite(rec, "pref", ["arith", "cmp", "hash", "int-", "float-", "same-value", "conv"])
    rec.extra["prefix_pairs_covered"] = len(pairs)
    rec.exhaustive = False
    rec.extra["explanation_exhaustive"] = "the 441 ordered prefix pairs are enumerated completely; mantissas are sampled"


def shards(ctx):
    return 16


def replay(ctx, rec, case):
    from hdl21.prefix import Prefix

    mpref.attach(rec)
    k = case.get("kind")
    if k in ("pair", "binop", "cmp", "num"):
        a, b = mpref.uncase(case["a"]), mpref.uncase(case["b"])
        rec.case(key=case)
        from hdl21.prefix import Prefixed

        if isinstance(a, Prefixed) and isinstance(b, Prefixed):
            judge_pair(rec, a, b)
        else:
            call(rec, "arith-raises:+num", "a+b", case, lambda: a + b)
            call(rec, "arith-raises:*num", "a*b", case, lambda: a * b)
    elif k in ("unop", "int", "float"):
        a = mpref.uncase(case["a"])
        rec.case(key=case)
        judge_pair(rec, a, a)
    elif k == "used":
        rec.case(key=case)
        used_before(rec, mpref.uncase(case["a"]))
    elif k == "scale":
        a = mpref.uncase(case["a"])
        rec.case(key=case)
        to = case.get("to")
        call(rec, "arith-raises:scale", "scale", case, lambda: a.scale(Prefix[to]) if to else a.scale())
    elif k == "prefixmul":
        a = mpref.uncase(case["a"])
        rec.case(key=case)
        call(rec, "arith-raises:prefix*", "a*p", case, lambda: a * Prefix[case["p"]])
