"""
C18 -- Module and Bundle namespaces stay coherent under any edit sequence.

M-ns: an invariant hook on the real `Module.__setattr__ / Module.add / Bundle.__setattr__ / Bundle.add`
(class attributes, so nothing escapes) that, after every call -- returning or raising -- walks the object's
combined namespace and per-kind views and asserts their agreement.  The workload enumerates edit histories over
a 3-name alphabet with fresh values of every attribute kind; a sample of final states is exported and compared
with a fresh module holding only the final mapping; the rejection clauses are probed directly.
"""

from __future__ import annotations

import itertools

from .. import env
from ..runner import jhash

LEVEL = "exploration"
RULE = ("histories = sequences of (op, name, kind) with op in {setattr, add}, name in {x, y, z}, kind in {Signal, Port, "
        "directed internal Signal, Instance, InstanceArray, InstanceBundle, BundleInstance} (Modules) / {Signal, Port-Signal, "
        "directed internal Signal, BundleInstance} (Bundles), "
        "every value a fresh object; exhaustive to length 3 (quick) / 4 (thorough, Modules on a reduced alphabet) plus seeded "
        "histories of length <= 8; the invariant is evaluated after EVERY operation. distinct = the history; non-trivial = "
        "some name is used at least twice")
ASSUMPTIONS = [
    "in the main histories every value is fresh; histories that alias one object under two names or in two modules are judged by the "
    "post-condition of each assignment and by views/namespace agreement only (an object has one name and one parent)",
    "the invariant is checked at quiescent points only (after a public setattr/add returns or raises), never inside a pass",
]
REQUIRED_COUNTERS = ["M-ns.module", "M-ns.bundle", "export.compared", "reject.probes", "alias.ops", "taking.probed", "taking.refused", "taking.copy-accepted"]
MIN_EVALS = 5000
MIN_NONTRIVIAL = 3000

_state = {"rec": None, "attached": False, "history": None}

MOD_VIEWS = ["ports", "signals", "instances", "instarrays", "instbundles", "bundles"]
BUN_VIEWS = ["signals", "bundles"]


def kind_view_module(val):
    import hdl21 as h
    from hdl21.signal import Visibility

    if isinstance(val, h.Signal):
        return "ports" if val.vis == Visibility.PORT else "signals"
    if isinstance(val, h.Instance):
        return "instances"
    if isinstance(val, h.InstanceArray):
        return "instarrays"
    if isinstance(val, h.InstanceBundle):
        return "instbundles"
    if isinstance(val, h.BundleInstance):
        return "bundles"
    return None


def check_module(m, rec, where):
    rec.count("M-ns.module")
    problems = []
    g = object.__getattribute__
    ns = g(m, "namespace")
    views = {v: g(m, v) for v in MOD_VIEWS}
    for name, obj in ns.items():
        holders = [v for v in MOD_VIEWS if name in views[v]]
        want = kind_view_module(obj)
        if holders != [want]:
            problems.append(("view-disagrees", f"name '{name}' ({type(obj).__name__}) is listed in views {holders}, expected exactly ['{want}']"))
        elif views[want][name] is not obj:
            problems.append(("view-disagrees", f"views['{want}']['{name}'] is a different object than namespace['{name}']"))
        if m.get(name) is not obj:
            problems.append(("get-disagrees", f"get('{name}') is not namespace['{name}']"))
        try:
            if getattr(m, name) is not obj:
                problems.append(("getattr-disagrees", f"attribute access .{name} returns a different object than get('{name}')"))
        except AttributeError:
            problems.append(("getattr-disagrees", f"attribute access .{name} raises although get('{name}') returns an object"))
        if getattr(obj, "name", None) != name:
            problems.append(("name-disagrees", f"object under '{name}' reports name '{getattr(obj, 'name', None)}'"))
        if getattr(obj, "_parent_module", None) is not m:
            problems.append(("parent-wrong", f"object under '{name}' does not report the module as its parent"))
    for v in MOD_VIEWS:
        for name, obj in views[v].items():
            if name not in ns:
                problems.append(("stale-view-entry", f"views['{v}'] still lists '{name}', which the namespace no longer holds"))
            elif ns[name] is not obj:
                problems.append(("stale-view-entry", f"views['{v}']['{name}'] is a stale {type(obj).__name__}; the name now denotes a {type(ns[name]).__name__}"))
    report(rec, problems, where, "module")


def check_bundle(b, rec, where):
    import hdl21 as h

    rec.count("M-ns.bundle")
    problems = []
    g = object.__getattribute__
    ns = g(b, "namespace")
    views = {v: g(b, v) for v in BUN_VIEWS}
    for name, obj in ns.items():
        want = "signals" if isinstance(obj, h.Signal) else "bundles"
        holders = [v for v in BUN_VIEWS if name in views[v]]
        if holders != [want]:
            problems.append(("view-disagrees", f"bundle name '{name}' is listed in views {holders}, expected ['{want}']"))
        elif views[want][name] is not obj:
            problems.append(("view-disagrees", f"bundle views['{want}']['{name}'] is a different object"))
        if b.get(name) is not obj:
            problems.append(("get-disagrees", f"bundle get('{name}') is not namespace['{name}']"))
        try:
            if getattr(b, name) is not obj:
                problems.append(("getattr-disagrees", f"bundle attribute .{name} differs from get"))
        except AttributeError:
            problems.append(("getattr-disagrees", f"bundle attribute .{name} raises"))
        if getattr(obj, "name", None) != name:
            problems.append(("name-disagrees", f"bundle member under '{name}' reports name '{getattr(obj, 'name', None)}'"))
    for v in BUN_VIEWS:
        for name, obj in views[v].items():
            if name not in ns:
                problems.append(("stale-view-entry", f"bundle views['{v}'] still lists '{name}'"))
            elif ns[name] is not obj:
                problems.append(("stale-view-entry", f"bundle views['{v}']['{name}'] is stale"))
    report(rec, problems, where, "bundle")


def report(rec, problems, where, what):
    hist = _state["history"]
    if _state.get("alias"):
        # one object under two names / in two modules: its single `name` and parent can match only the last assignment (checked by
        # the driver as a post-condition of that assignment); what remains demanded everywhere is that views and namespace agree
        problems = [p for p in problems if p[0] not in ("name-disagrees", "parent-wrong")]
    for cls, msg in problems[:3]:
        rec.violation(f"{what}-{cls}", f"after {where}: {msg}" + (f"  [history {hist}]" if hist else ""),
                      case={"kind": what, "history": hist})


def attach(rec):
    if not env.guard_on():
        raise RuntimeError("monitors are guarded by HDL21_VERIF=1")
    _state["rec"] = rec
    if _state["attached"]:
        return
    import hdl21 as h
    from hdl21.bundle import Bundle

    def wrap(cls, name, checker, public_only):
        orig = cls.__dict__[name]

        def hooked(self, *a, **k):
            special = name == "__setattr__" and (a and isinstance(a[0], str) and (a[0].startswith("_") or not getattr(self, "_initialized", False)))
            try:
                return orig(self, *a, **k)
            finally:
                r = _state["rec"]
                if r is not None and not special and _state.get("active"):
                    checker(self, r, f"{cls.__name__}.{name}({a[0] if a and isinstance(a[0], str) else type(a[0]).__name__ if a else ''})")

        hooked.__name__ = name
        setattr(cls, name, hooked)

    wrap(h.Module, "__setattr__", check_module, True)
    wrap(h.Module, "add", check_module, True)
    wrap(Bundle, "__setattr__", check_bundle, True)
    wrap(Bundle, "add", check_bundle, True)
    _state["attached"] = True


# ------------------------------------------------------------------------------------------------

MKINDS = ["Signal", "Port", "DirectedSignal", "Instance", "InstanceArray", "InstanceBundle", "BundleInstance"]
BKINDS = ["Signal", "PortSignal", "DirectedSignal", "BundleInstance"]
_lib = {}


def lib():
    import hdl21 as h

    if not _lib:
        _lib["E"] = h.ExternalModule(name="NsLeaf", domain="hvlib", port_list=[h.Port(name="z")], paramtype=h.HasNoParams)
        b = h.Bundle(name="NsB")
        b.add(h.Signal(), name="u")
        b.add(h.Signal(width=2), name="v")
        _lib["B"] = b
    return _lib


def fresh(kind, g=None):
    import hdl21 as h

    L = lib()
    if kind == "Signal":
        return h.Signal()
    if kind in ("Port", "PortSignal"):
        return h.Port(width=2)
    if kind == "DirectedSignal":  # internal visibility, yet a direction: must NOT be listed as a port
        return h.Signal(direction=h.PortDir.OUTPUT)
    if kind == "Instance":
        i = h.Instance(of=L["E"]())
        if g is not None:
            i.connect("z", g)
        return i
    if kind == "InstanceArray":
        i = h.InstanceArray(of=L["E"](), n=2)
        if g is not None:
            i.connect("z", g)
        return i
    if kind == "InstanceBundle":
        i = h.Pair(L["E"]())
        if g is not None:
            i.connect("z", g)
        return i
    if kind == "BundleInstance":
        return h.BundleInstance(of=L["B"])
    raise ValueError(kind)


_ctr = itertools.count()


def run_history(rec, hist, on="module", export=False):
    """Apply a history to a fresh Module/Bundle with the hooks live.  Returns (object, model)."""
    import hdl21 as h

    _state["history"] = hist
    _state["active"] = True
    model = {}
    try:
        if on == "module":
            obj = h.Module(name=f"Ns{next(_ctr)}")
            g = None
            if export:
                g = obj.add(h.Signal(), name="g")
            for (op, name, kind) in hist:
                val = fresh(kind, g)
                if op == "setattr":
                    setattr(obj, name, val)
                else:
                    obj.add(val, name=name)
                model[name] = kind
        else:
            obj = h.Bundle(name=f"NsB{next(_ctr)}")
            for (op, name, kind) in hist:
                val = fresh(kind)
                if op == "setattr":
                    setattr(obj, name, val)
                else:
                    obj.add(val, name=name)
                model[name] = kind
    finally:
        _state["active"] = False
        _state["history"] = None
    return obj, model


def alias_invariants(rec, targets, on, hist, where):
    """Whatever was accepted or refused: (I1) no holder lists one object under two names; (I2) an object listed by a Bundle is listed
    by no other holder (a Bundle cannot notice that a member was re-named by someone else; a Module robbed by ANOTHER MODULE keeps a
    stale entry by design, which its elaboration reports as an orphan)."""
    import hdl21 as h

    for k, tgt in enumerate(targets):
        seen = {}
        for key, v in tgt.namespace.items():
            if id(v) in seen:
                rec.violation("object-under-two-names", f"after {where}: target {k} ({type(tgt).__name__}) lists one {type(v).__name__} as "
                                                        f"'{seen[id(v)]}' and as '{key}'  [history {hist}]", case={"kind": "alias", "on": on, "history": hist})
            seen[id(v)] = key
    for k, tgt in enumerate(targets):
        if not isinstance(tgt, h.Bundle):
            continue
        mine = {id(v): key for key, v in tgt.namespace.items()}
        for k2, other in enumerate(targets):
            if other is tgt:
                continue
            for key2, v2 in other.namespace.items():
                if id(v2) in mine:
                    rec.violation("object-held-by-two-holders", f"after {where}: one {type(v2).__name__} is member '{mine[id(v2)]}' of target {k} (Bundle) and "
                                                                f"attribute '{key2}' of target {k2} ({type(other).__name__}); it reports the name '{v2.name}'  "
                                                                f"[history {hist}]", case={"kind": "alias", "on": on, "history": hist})


def alias_history(rec, hist, on):
    """Histories that re-use objects: hist = [(target 0|1, op, name, value)] with value in P0 (one Signal object), P1 (one bundle
    instance), P2 (one Instance; modules only), FS / FB (fresh Signal / bundle instance).  Post-condition of every assignment that
    returns: the target's get(name) is the value, the value carries that name and (modules) reports the target as its parent; the
    views/namespace agreement is checked by the riding hook."""
    import hdl21 as h

    _state["history"] = hist
    _state["active"] = True
    _state["alias"] = True
    try:
        if on == "mixed":  # one Module and one Bundle: a Signal / bundle instance can be offered to either
            targets = [h.Module(name=f"Al{next(_ctr)}"), h.Bundle(name=f"AlB{next(_ctr)}")]
        else:
            targets = [h.Module(name=f"Al{next(_ctr)}") for _ in range(2)] if on == "module" else [h.Bundle(name=f"AlB{next(_ctr)}") for _ in range(2)]
        pool = {"P0": h.Signal(), "P1": h.BundleInstance(of=lib()["B"]), "P2": h.Instance(of=lib()["E"]())}
        for (t, op, name, v) in hist:
            val = pool[v] if v in pool else (h.Signal(width=2) if v == "FS" else h.BundleInstance(of=lib()["B"]))
            tgt = targets[t]
            try:
                if op == "setattr":
                    setattr(tgt, name, val)
                else:
                    val.name = None
                    tgt.add(val, name=name)
            except Exception as e:
                rec.count("alias.refused")
                alias_invariants(rec, targets, on, hist, f"the refused {op} of {v} as '{name}' on target {t}")
                continue
            rec.count("alias.ops")
            alias_invariants(rec, targets, on, hist, f"{op} of {v} as '{name}' on target {t}")
            bad = []
            if tgt.get(name) is not val:
                bad.append(f"get('{name}') is not the object just assigned")
            if val.name != name:
                bad.append(f"the object reports name '{val.name}'")
            if isinstance(tgt, h.Module) and getattr(val, "_parent_module", None) is not tgt:
                bad.append("the object does not report the module it was just added to as its parent")
            for b in bad:
                rec.violation(f"{on}-assignment-postcondition", f"after {op} of {v} as '{name}' on target {t}: {b}  [history {hist}]",
                              case={"kind": "alias", "on": on, "history": hist})
    finally:
        _state["active"] = False
        _state["alias"] = False
        _state["history"] = None


def normalized_module(pkg, which=-1):
    m = pkg.modules[which]
    sigs = sorted((s.name, s.width) for s in m.signals)
    ports = sorted(p.signal for p in m.ports)
    insts = sorted((i.name, i.module.external.name or i.module.local.split(".")[-1].rstrip("0123456789"),
                    tuple(sorted((c.portname, str(c.target).strip()) for c in i.connections))) for i in m.instances)
    return {"signals": sigs, "ports": ports, "instances": insts}


def export_check(rec, hist):
    """Export the edited module and a fresh module holding only the final mapping; they must agree."""
    import hdl21 as h

    try:
        obj, model = run_history(rec, hist, "module", export=True)
        final = [("add", n, k) for n, k in model.items()]
        ref, _ = run_history(rec, final, "module", export=True)
    except Exception as e:
        rec.violation("edit-raised", f"history {hist} raised {type(e).__name__}: {e}", case={"kind": "module", "history": hist})
        return
    try:
        a = normalized_module(h.to_proto(obj))
    except Exception as e:
        a = ("raised", type(e).__name__, str(e)[:100])
    try:
        b = normalized_module(h.to_proto(ref))
    except Exception as e:
        b = ("raised", type(e).__name__, str(e)[:100])
    rec.count("export.compared")
    if a != b:
        rec.violation("export-differs-from-final-mapping",
                      f"module edited by {hist} exports {a}; a fresh module holding only the final mapping "
                      f"{sorted(model.items())} exports {b}", case={"kind": "export", "history": hist})


def reject_probes(rec):
    """Reserved names, non-HDL values, attribute deletion, sub-classing, additions after elaboration."""
    import hdl21 as h
    from hdl21.module import _banned as mod_banned
    from hdl21.bundle import _banned as bun_banned, Bundle

    def must_raise(what, f, sig):
        rec.count("reject.probes")
        try:
            f()
        except Exception:
            return
        rec.violation(sig, f"{what} was accepted", case={"kind": "probe", "what": what})

    # a bundle instance is an instance of a Bundle DEFINITION: not of another instance, a Module, or anything else
    for what, mk in (("a bundle instance", lambda: h.Diff()), ("a Module", lambda: h.Module(name="NotABundle")), ("an int", lambda: 5), ("None", lambda: None),
                     ("a Signal", lambda: h.Signal())):
        for holder in ("module", "bundle"):
            def attempt(mk=mk, holder=holder):
                tgt = h.Module(name="P") if holder == "module" else h.Bundle(name="P")
                tgt.add(h.BundleInstance(of=mk()), name="d")
                if holder == "module":
                    h.to_proto(tgt)
            must_raise(f"BundleInstance(of={what}) added to a {holder}" + (" and exported" if holder == "module" else ""), attempt, "bundle-instance-of-non-bundle-accepted")
    # a member of a Bundle definition re-named after it was added: reported whichever way the Bundle is used
    for use in ("bundle-instance", "bundle-port", "instance-bundle", "sub-bundle"):
        for when in ("before-first-use", "after-another-module-used-it"):
            def attempt(use=use, when=when):
                uid = next(_ctr)
                MyB = h.Bundle(name=f"RnB{uid}")
                MyB.add(h.Signal(), name="p")
                MyB.add(h.Signal(), name="n")
                if when != "before-first-use":
                    other = h.Module(name=f"RnO{uid}")
                    other.add(MyB(), name="b")
                    other.add(h.R(r=1)(p=other.b.p, n=other.b.n), name="r")
                    h.elaborate(other)
                MyB.p.name = "q"
                m = h.Module(name=f"RnM{uid}")
                m.add(h.Signal(), name="s")
                E2 = h.ExternalModule(name=f"RnE{uid}", port_list=[h.Port(name="z")], paramtype=h.HasNoParams)
                if use == "bundle-instance":
                    m.add(MyB(), name="b")
                    m.add(h.R(r=1)(p=m.b.p, n=m.b.n), name="r")
                elif use == "bundle-port":
                    m.add(MyB(port=True), name="b")
                    m.add(h.R(r=1)(p=m.b.p, n=m.b.n), name="r")
                elif use == "instance-bundle":
                    T = h.InstanceBundleType(name=f"RnT{uid}", bundle=MyB)
                    m.add(T(E2())(z=m.s), name="ib")
                else:
                    Outer = h.Bundle(name=f"RnOuter{uid}")
                    Outer.add(MyB(), name="inner")
                    m.add(Outer(), name="b")
                    m.add(h.R(r=1)(p=m.b.inner.p, n=m.b.inner.n), name="r")
                h.to_proto(m)
            must_raise(f"a Bundle member re-named after add, Bundle used as {use} ({when})", attempt, "renamed-bundle-member-accepted")
    for name in mod_banned:
        must_raise(f"Module.__setattr__('{name}', Signal)", lambda n=name: setattr(h.Module(name="P"), n, h.Signal()), "reserved-name-accepted:setattr")
        must_raise(f"Module.add(Signal, name='{name}')", lambda n=name: h.Module(name="P").add(h.Signal(), name=n), "reserved-name-accepted:add")
        must_raise(f"Module.add(Signal(name='{name}'))", lambda n=name: h.Module(name="P").add(h.Signal(name=n)), "reserved-name-accepted:add")
    for name in bun_banned:
        must_raise(f"Bundle.__setattr__('{name}', Signal)", lambda n=name: setattr(h.Bundle(name="P"), n, h.Signal()), "reserved-name-accepted:setattr")
        must_raise(f"Bundle.add(Signal, name='{name}')", lambda n=name: h.Bundle(name="P").add(h.Signal(), name=n), "reserved-name-accepted:add")
    for bad in (5, "s", None, [h.Signal()], h.Module(name="Q"), lib()["E"], lambda: 0, h.NoConn(), h.Concat(h.Signal())):
        must_raise(f"Module.x = {type(bad).__name__}", lambda b=bad: setattr(h.Module(name="P"), "x", b), "non-hdl-value-accepted")
        must_raise(f"Module.add({type(bad).__name__}, name='x')", lambda b=bad: h.Module(name="P").add(b, name="x"), "non-hdl-value-accepted")
        must_raise(f"Bundle.x = {type(bad).__name__}", lambda b=bad: setattr(h.Bundle(name="P"), "x", b), "non-hdl-value-accepted")

    def deletion():
        m = h.Module(name="P")
        m.x = h.Signal()
        del m.x

    must_raise("del module.x", deletion, "deletion-accepted")

    def deletion_b(what):
        b = h.Bundle(name="P")
        b.x = h.Signal()
        delattr(b, what)

    for what in ("x", "signals", "bundles", "namespace", "name"):
        must_raise(f"del bundle.{what}", lambda w=what: deletion_b(w), "deletion-accepted")
    # ill-formed names
    for bad in ("", 0, None, "_x", "_elaborated"):
        if bad is not None:
            must_raise(f"Module.add(Signal, name={bad!r})", lambda b=bad: h.Module(name="P").add(h.Signal(), name=b), "ill-formed-name-accepted")
            must_raise(f"Bundle.add(Signal, name={bad!r})", lambda b=bad: h.Bundle(name="P").add(h.Signal(), name=b), "ill-formed-name-accepted")
        if isinstance(bad, str) and bad:
            must_raise(f"Module.{bad} = Signal", lambda b=bad: setattr(h.Module(name="P"), b, h.Signal()), "ill-formed-name-accepted")
            must_raise(f"Module.add(Signal(name={bad!r}))", lambda b=bad: h.Module(name="P").add(h.Signal(name=b)), "ill-formed-name-accepted")
            must_raise(f"Bundle.{bad} = Signal", lambda b=bad: setattr(h.Bundle(name="P"), b, h.Signal()), "ill-formed-name-accepted")
            must_raise(f"Bundle.{bad} = bundle instance", lambda b=bad: setattr(h.Bundle(name="P"), b, h.BundleInstance(of=h.Diff)), "ill-formed-name-accepted")
            must_raise(f"class body `{bad} = h.Signal()` (bundle)", lambda b=bad: h.bundle(type("CbUnder", (), {b: h.Signal(), "ok": h.Signal()})), "ill-formed-name-accepted")
            must_raise(f"class body `{bad} = h.Signal()` (module)", lambda b=bad: h.module(type("CbUnder", (), {b: h.Signal(), "ok": h.Signal()})), "ill-formed-name-accepted")
    # the name of the Module / Bundle itself is not an attribute slot
    for val in (h.Signal(), h.Input(), h.Instance(of=lib()["E"]()), 5):
        must_raise(f"Module.name = {type(val).__name__}", lambda v=val: setattr(h.Module(name="P"), "name", v), "reserved-name-accepted:setattr")
        must_raise(f"Bundle.name = {type(val).__name__}", lambda v=val: setattr(h.Bundle(name="P"), "name", v), "reserved-name-accepted:setattr")
    for val in (5, h.Signal(), ["x"]):
        must_raise(f"Bundle(name={type(val).__name__})", lambda v=val: h.Bundle(name=v), "reserved-name-accepted:setattr")
        must_raise(f"Module(name={type(val).__name__})", lambda v=val: h.Module(name=v), "reserved-name-accepted:setattr")
    must_raise("class body `name = h.Port()` (module)", lambda: h.module(type("CbName", (), {"name": h.Port()})), "reserved-name-accepted:class")
    must_raise("class body `name = h.Signal()` (bundle)", lambda: h.bundle(type("CbName", (), {"name": h.Signal()})), "reserved-name-accepted:class")

    # additions to a Bundle definition that modules were already built from
    def bundle_after_elab(form, depth=0, how="port", which="used"):
        """`depth`: the definition edited is used only as a member, `depth` levels down, of the bundle the module instantiates;
        `how`: the module holds the outer bundle as a port, internally, or only through a sub-module's port."""
        b = h.Bundle(name=f"BAfter{next(_ctr)}")
        b.x = h.Signal()
        outer = b
        for _ in range(depth):
            o = h.Bundle(name=f"BAfterOuter{next(_ctr)}")
            o.y = h.Signal()
            o.inner = outer()
            # (further sub-bundles after it: the definition edited below is the FIRST of several members)
            for extra in range(2):
                sib = h.Bundle(name=f"BAfterSib{next(_ctr)}")
                sib.q = h.Signal()
                setattr(o, f"sib{extra}", sib())
            outer = o
        m = h.Module(name=f"BAfterM{next(_ctr)}")
        if how == "port":
            m.p = outer(port=True)
        elif how == "internal":
            m.p = outer()
        elif how == "instance-bundle":
            # used only as the type of an instance bundle (the h.Pair mechanism), connected by scalars
            IB = h.InstanceBundleType(name=f"BAfterIB{next(_ctr)}", bundle=outer)
            m.s = h.Signal()
            m.q = IB(lib()["E"]())(z=m.s)
        elif how == "failed-early":
            # the module's elaboration fails in an EARLY pass (a width mismatch), long before bundles are flattened
            m.p = outer()
            m.w3 = h.Signal(width=3)
            m.bad = lib()["E"]()(z=m.w3)
        else:
            c = h.Module(name=f"BAfterC{next(_ctr)}")
            c.p = outer(port=True)
            m.p = outer()
            m.i = c(p=m.p)
        try:
            h.elaborate(m)
        except Exception:
            if how != "failed-early":
                raise
        target = b if which == "used" else outer
        if form == "setattr":
            target.z = h.Signal(width=3)
        else:
            target.add(h.Signal(width=2), name="z")

    for depth in (0, 1, 2):
        for how in ("port", "internal", "child", "instance-bundle", "failed-early"):
            if how == "instance-bundle" and depth > 0:
                continue  # (instance bundles take flat bundles only)
            for which in (("used",) if depth == 0 else ("used", "outer")):
                for form in ("setattr", "add"):
                    rec.count("reject.bundle-after-elab")
                    must_raise(f"Bundle {form} after elaboration of a module using it ({'directly' if depth == 0 else f'as a member, {depth} level(s) down'}; "
                               f"{how}; edited definition: {which})",
                               lambda form=form, depth=depth, how=how, which=which: bundle_after_elab(form, depth, how, which), "post-elaboration-addition-accepted")

    # a refusal leaves the offered object as it was
    def refusal_is_atomic():
        m1 = h.Module(name=f"At{next(_ctr)}")
        m1.a = h.Input()
        done = h.Module(name=f"AtDone{next(_ctr)}")
        done.q = h.Signal()
        h.elaborate(done)
        try:
            done.x = m1.a
        except Exception:
            pass
        try:
            done.add(m1.a, name="y") if False else None
        except Exception:
            pass
        if m1.a.name != "a" or m1.get("a").name != "a" or m1.a._parent_module is not m1:
            raise AssertionError
        raise RuntimeError("atomic")  # (signals 'held' to must_raise)

    def refusal_probe():
        try:
            refusal_is_atomic()
        except AssertionError:
            return  # violated: must_raise will report "accepted"
        except RuntimeError:
            raise

    must_raise("a refused addition renames / re-parents the offered object", refusal_probe, "refused-addition-modifies-object")
    # taking an attribute out of an elaborated module
    def take_from_elaborated():
        m1 = h.Module(name=f"Tk{next(_ctr)}")
        m1.a = h.Input()
        h.elaborate(m1)
        m2 = h.Module(name=f"Tk2{next(_ctr)}")
        m2.x = m1.a

    must_raise("m2.x = <port of an elaborated module>", take_from_elaborated, "post-elaboration-addition-accepted")

    def subclass_m():
        class Sub(h.Module):
            pass

    def subclass_b():
        class Sub(Bundle):
            pass

    must_raise("class Sub(Module)", subclass_m, "subclassing-accepted")
    must_raise("class Sub(Bundle)", subclass_b, "subclassing-accepted")

    def after_elab(form):
        m = h.Module(name=f"AfterElab{next(_ctr)}")
        m.a = h.Signal()
        h.elaborate(m)
        if form == "setattr":
            m.b = h.Signal()
        else:
            m.add(h.Signal(), name="b")

    must_raise("setattr after elaboration", lambda: after_elab("setattr"), "post-elaboration-addition-accepted")
    must_raise("add() after elaboration", lambda: after_elab("add"), "post-elaboration-addition-accepted")
    post_elab_matrix(rec, must_raise)
    # anonymous / doubly named additions
    must_raise("Module.add(Signal()) without a name", lambda: h.Module(name="P").add(h.Signal()), "anonymous-add-accepted")
    must_raise("Module.add(Signal(name='a'), name='b')", lambda: h.Module(name="P").add(h.Signal(name="a"), name="b"), "conflicting-names-accepted")


def post_elab_matrix(rec, must_raise):
    """Every kind of value x {fresh name, name of a signal, of a port, of an instance} x {setattr, add} on an elaborated module:
    refused, and the refusal leaves the module as it was (M-ns rides on the raising call; the re-export is compared here)."""
    import hdl21 as h

    E = lib()["E"]

    def values():
        yield "Signal", lambda: h.Signal()
        yield "Signal(width=2)", lambda: h.Signal(width=2)
        yield "Port", lambda: h.Input()
        yield "Instance", lambda: h.Instance(of=E())
        yield "InstanceArray", lambda: h.InstanceArray(E(), 2)
        yield "InstanceBundle", lambda: h.Pair(E())
        yield "BundleInstance", lambda: h.BundleInstance(of=h.Diff)

    for vname, mk in values():
        for target in ("fresh", "sig", "prt", "ins"):
            for form in ("setattr", "add", "add-named"):
                m = h.Module(name=f"AfterElab{next(_ctr)}")
                m.sig, m.prt = h.Signal(), h.Input()
                m.ins = E()(z=m.sig)
                before = h.to_proto(m).SerializeToString(deterministic=True)
                name = "zz" if target == "fresh" else target

                def attempt(m=m, name=name, form=form, mk=mk):
                    v = mk()
                    if form == "setattr":
                        setattr(m, name, v)
                    elif form == "add":
                        m.add(v, name=name)
                    else:
                        v.name = name
                        m.add(v)

                what = f"{form} of a {vname} under {'a fresh name' if target == 'fresh' else 'the name of an existing ' + target} after elaboration"
                must_raise(what, attempt, "post-elaboration-addition-accepted")
                rec.count("reject.post-elab-matrix")
                try:
                    after = h.to_proto(m).SerializeToString(deterministic=True)
                except Exception as e:
                    rec.violation("post-elaboration-attempt-damages", f"after the refused {what} the module no longer exports: {type(e).__name__}: {str(e)[:100]}",
                                  case={"kind": "probe", "what": what})
                    continue
                if after != before:
                    rec.violation("post-elaboration-attempt-damages", f"after the refused {what} the module exports a different package",
                                  case={"kind": "probe", "what": what})


def taking_probes(rec):
    """An object which belongs to someone who cannot notice its loss - an elaborated Module (including what elaboration dissolved:
    bundle-valued ports, arrays, pairs), an ExternalModule's or Primitive's declared ports - is offered to another Module / Bundle
    under another name.  Refused; or else the owner is what it was: it exports, and is instantiated by a new parent, as before."""
    import hdl21 as h
    from hdl21.primitives import Primitive, PrimitiveType

    E = lib()["E"]

    def owner():
        m = h.Module(name=f"Owner{next(_ctr)}")
        m.s, m.p = h.Signal(), h.Input()
        m.bp = h.Diff(port=True)
        m.bi = h.Diff()
        m.i = E()(z=m.s)
        m.arr = 2 * E()(z=m.s)
        m.pr = h.Pair(E())(z=m.bi)
        m.r = h.R(r=1)(p=m.bp.p, n=m.bp.n)
        m.r2 = h.R(r=1)(p=m.p, n=m.s)
        return m, {"signal": m.s, "port": m.p, "bundle-port": m.bp, "bundle-instance": m.bi, "instance": m.i, "array": m.arr, "pair": m.pr}

    def parent_pkg(m):
        par = h.Module(name="TakeParent")
        par.d, par.q = h.Diff(), h.Signal()
        par.add(m(bp=par.d, p=par.q), name="u")
        from hdl21.generators import Wrapper

        # ... and by the built-in wrapper, which clones the ports (bundle-valued ones included) by the names they report
        return h.to_proto(par).SerializeToString(deterministic=True) + h.to_proto(Wrapper(m)).SerializeToString(deterministic=True)

    for what in ("signal", "port", "bundle-port", "bundle-instance", "instance", "array", "pair"):
        for form in ("setattr", "add"):
            for thief_kind in ("module", "bundle"):
                if thief_kind == "bundle" and what in ("instance", "array", "pair"):
                    continue
                m, objs = owner()
                h.elaborate(m)
                before = (h.to_proto(m).SerializeToString(deterministic=True), parent_pkg(m))
                thief = h.Module(name=f"Thief{next(_ctr)}") if thief_kind == "module" else h.Bundle(name=f"ThiefB{next(_ctr)}")
                val = objs[what]
                case = {"kind": "taking", "what": what, "form": form, "thief": thief_kind}
                rec.case(key=f"taking:{what}:{form}:{thief_kind}", nontrivial=True, sample=case)
                rec.count("taking.probed")
                try:
                    if form == "setattr":
                        setattr(thief, "stolen", val)
                    else:
                        thief.add(val, name="stolen")
                    rec.count("taking.accepted")
                except Exception:
                    rec.count("taking.refused")
                try:
                    after = (h.to_proto(m).SerializeToString(deterministic=True), parent_pkg(m))
                except Exception as e:
                    rec.violation("taking-damages-elaborated-owner", f"after a {thief_kind} took ({form}) the {what} of an elaborated module as 'stolen', the module / a new parent "
                                  f"of it no longer exports: {type(e).__name__}: {str(e)[:100]}", case=case, taken=what)
                    continue
                if after != before:
                    rec.violation("taking-damages-elaborated-owner", f"after a {thief_kind} took ({form}) the {what} of an elaborated module as 'stolen', the module or a new "
                                  f"parent instantiating it exports a different package", case=case, taken=what)

    # additions through a COPY of a holder: refused, or they are the copy's alone
    import copy as _copy

    for holder in ("module", "elaborated-module", "bundle", "closed-bundle"):
        for how in ("copy", "deepcopy"):
            rec.count("taking.probed")
            case = {"kind": "taking", "what": f"additions through a {how} of a {holder}"}
            rec.case(key=f"taking:copy:{holder}:{how}", nontrivial=True, sample=case)
            B = h.Bundle(name=f"CpB{next(_ctr)}")
            B.add(h.Signal(), name="x")
            M = h.Module(name=f"CpM{next(_ctr)}")
            M.a = h.Input()
            M.add(B(port=True), name="bp")
            M.r = h.R(r=1)(p=M.a, n=M.bp.x)
            if holder in ("elaborated-module", "closed-bundle"):
                h.elaborate(M)
            before = h.to_proto(M).SerializeToString(deterministic=True) if holder != "module" and holder != "bundle" else None
            orig = M if "module" in holder else B
            names_before = sorted(orig.namespace)
            try:
                cp = (_copy.copy if how == "copy" else _copy.deepcopy)(orig)
                cp.add(h.Signal() if "bundle" in holder else h.Input(), name="added_through_copy")
                rec.count("taking.accepted")
            except Exception:
                rec.count("taking.refused")
                continue
            if sorted(orig.namespace) != names_before:
                rec.violation("addition-through-copy-reaches-original", f"an attribute added to a {how} of a {holder} shows up in the original: "
                              f"{sorted(orig.namespace)} (was {names_before})", case=case, holder=holder, how=how)
                continue
            if before is not None and h.to_proto(M).SerializeToString(deterministic=True) != before:
                rec.violation("addition-through-copy-reaches-original", f"after an addition to a {how} of a {holder} the original module exports differently", case=case,
                              holder=holder, how=how)

    # ports declared by external modules and primitives
    def declared():
        x = h.ExternalModule(name=f"TakeX{next(_ctr)}", domain="hvtake", port_list=[h.Input(name="g"), h.Port(name="d"), h.Port(name="s")], paramtype=h.HasNoParams)
        pr = Primitive(name=f"TakeP{next(_ctr)}", desc="a private primitive", port_list=[h.Port(name="d"), h.Port(name="g")], paramtype=h.HasNoParams, primtype=PrimitiveType.IDEAL)
        return x, pr

    def user_pkg(x):
        u = h.Module(name="TakeUser")
        u.a, u.b, u.c = h.Signals(3)
        u.add(x()(g=u.a, d=u.b, s=u.c), name="xx")
        return h.to_proto(u).SerializeToString(deterministic=True)

    for owner_kind in ("external", "primitive"):
        for how in ("ports-dict", "port_list"):
            for form in ("setattr", "add"):
                for thief_kind in ("module", "bundle"):
                    x, pr = declared()
                    own = x if owner_kind == "external" else pr
                    names = [p.name for p in own.port_list]
                    before = user_pkg(x)
                    thief = h.Module(name=f"Thief{next(_ctr)}") if thief_kind == "module" else h.Bundle(name=f"ThiefB{next(_ctr)}")
                    vals = [own.ports["d"]] if how == "ports-dict" else [own.port_list[0], own.port_list[1]]
                    newnames = ["vdd"] if how == "ports-dict" else [names[1], names[0]]
                    case = {"kind": "taking", "what": f"{owner_kind}-declared-port", "form": form, "thief": thief_kind}
                    rec.case(key=f"taking:{owner_kind}:{how}:{form}:{thief_kind}", nontrivial=True, sample=case)
                    rec.count("taking.probed")
                    for v, n in zip(vals, newnames):
                        try:
                            if form == "setattr":
                                setattr(thief, n, v)
                            else:
                                thief.add(v, name=n)
                            rec.count("taking.accepted")
                        except Exception:
                            rec.count("taking.refused")
                    now = [p.name for p in own.port_list]
                    try:
                        after = user_pkg(x)
                    except Exception as e:
                        after = f"{type(e).__name__}"
                    if now != names or after != before:
                        rec.violation("taking-renames-declared-ports", f"a {thief_kind} took ({form}) port(s) of an {owner_kind} by `{how}`: its ports were {names} and are now {now}"
                                      + ("; a design instantiating it exports differently" if after != before else ""), case=case, owner=owner_kind)
                    # a copy is free to take
                    try:
                        thief2 = h.Module(name=f"Thief{next(_ctr)}")
                        import copy as _copy
                        thief2.add(_copy.copy(own.port_list[0]))
                        rec.count("taking.copy-accepted")
                    except Exception as e:
                        rec.violation("copy-of-declared-port-refused", f"a copy of a declared port of an {owner_kind} was refused: {str(e)[:100]}", case=case)


def visibility_probes(rec):
    """A Signal whose visibility is changed after it was added, and which is then added AGAIN (by assignment, by add(), by
    add(name=)): it is listed in exactly one kind-specific view - the ports exactly when it has port visibility - and the exported
    module has it as a port exactly then.  (Without the re-add the views keep what they were told at the time: not demanded here.)"""
    import hdl21 as h

    V = h.signal.Visibility
    for start, to in ((V.INTERNAL, V.PORT), (V.PORT, V.INTERNAL)):
        for form in ("setattr", "add", "add-named"):
            for repeat in (1, 2):
                rec.count("visibility.probed")
                case = {"kind": "visibility", "from": start.name, "to": to.name, "form": form, "repeat": repeat}
                rec.case(key=f"visibility:{start.name}:{to.name}:{form}:{repeat}", nontrivial=True, sample=case)
                m = h.Module(name=f"Vis{next(_ctr)}")
                m.x = h.Input()
                m.s = h.Signal() if start == V.INTERNAL else h.Output()
                m.r = h.R(r=1)(p=m.x, n=m.s)
                sig = m.s
                try:
                    for _ in range(repeat):
                        sig.vis = to
                        if to == V.PORT and sig.direction is None:
                            pass
                        if form == "setattr":
                            m.s = sig
                        elif form == "add":
                            m.add(sig)
                        else:
                            m.add(sig, name="s")
                except Exception:
                    rec.count("visibility.refused")
                    continue
                in_ports, in_sigs = m.ports.get("s") is sig, m.signals.get("s") is sig
                want_port = to == V.PORT
                if in_ports == in_sigs or in_ports != want_port:
                    rec.violation("views-disagree-with-visibility", f"a signal added as {start.name}, made {to.name} and added again by {form} (x{repeat}) is listed in "
                                  f"ports: {in_ports}, signals: {in_sigs}", case=case, form=form)
                    continue
                try:
                    pm = h.to_proto(m).modules[-1]
                except Exception as e:
                    rec.violation("edit-raised", f"visibility history {case} raised at export: {type(e).__name__}: {str(e)[:100]}", case=case)
                    continue
                rec.count("visibility.exported")
                names = [s_.name for s_ in pm.signals]
                if names.count("s") != 1 or (("s" in [p_.signal for p_ in pm.ports]) != want_port):
                    rec.violation("views-disagree-with-visibility", f"a signal added as {start.name}, made {to.name} and added again by {form}: exported signals {names}, "
                                  f"ports {[p_.signal for p_ in pm.ports]}", case=case, form=form)


def class_vs_procedural(rec, rng, n):
    """A class-style definition equals the equivalent procedural one (exported packages agree)."""
    import hdl21 as h
    from .. import spec, build
    import copy

    for k in range(n):
        d = spec.random_design(rng, max_modules=2, styles=("proc",))
        d2 = copy.deepcopy(d)
        for m in d2["modules"]:
            m["style"] = "class"
        try:
            pa = h.to_proto(build.build(d, uid="").top)
        except Exception as e:
            pa = None
        try:
            pb = h.to_proto(build.build(d2, uid="").top)
        except Exception as e:
            pb = None
        rec.count("style.compared")
        if (pa is None) != (pb is None):
            rec.violation("class-style-differs", f"procedural and class-style definitions of one design: one is rejected, the other exported",
                          case={"kind": "style", "design": d})
        elif pa is not None and pa.SerializeToString(deterministic=True) != pb.SerializeToString(deterministic=True):
            rec.violation("class-style-differs", "procedural and class-style definitions of one design export different packages",
                          case={"kind": "style", "design": d})


def class_body_probes(rec):
    """Class bodies whose values already carry a (different) name: `@h.module` / `@h.bundle` file every value under its class-body
    key, exactly as the equivalent sequence of attribute assignments does."""
    import hdl21 as h

    L = lib()

    def bodies(on):
        yield "pre-named signal", [("in_", lambda: h.Input(name="in"))]
        yield "name of a later key", [("a", lambda: h.Signal(name="b")), ("b", lambda: h.Signal(width=2))]
        yield "name of an earlier key", [("a", lambda: h.Signal(width=3)), ("b", lambda: h.Signal(name="a"))]
        yield "pre-named bundle instance", [("s", lambda: h.BundleInstance(name="t", of=L["B"])), ("t", lambda: h.Signal())]
        yield "swapped names", [("a", lambda: h.Signal(name="b", width=2)), ("b", lambda: h.Signal(name="a", width=3))]
        if on == "module":
            yield "pre-named instance", [("sig", lambda: h.Signal()), ("i", lambda: h.Instance(name="j", of=L["E"]())), ("j", lambda: h.Signal(width=2))]
            yield "pre-named port", [("p", lambda: h.Port(name="q")), ("q", lambda: h.Output(width=2))]

    def describe(obj):
        g = object.__getattribute__
        ns = g(obj, "namespace")
        return [(k, type(v).__name__, v.name, v.width if isinstance(v, h.Signal) else None) for k, v in ns.items()]

    for on in ("module", "bundle"):
        for label, body in bodies(on):
            rec.count("style.class-bodies")
            case = {"kind": "class-body", "on": on, "body": label}
            rec.case(key=f"class-body:{on}:{label}", nontrivial=True, sample=case if label == "swapped names" else None)
            try:
                cls = type(f"CB{next(_ctr)}", (), {k: mk() for k, mk in body})
                a = h.module(cls) if on == "module" else h.bundle(cls)
                da = describe(a)
            except Exception as e:
                da = ("raised", type(e).__name__)
            try:
                b = h.Module(name="P") if on == "module" else h.Bundle(name="P")
                for k, mk in body:
                    setattr(b, k, mk())
                db = describe(b)
            except Exception as e:
                db = ("raised", type(e).__name__)
            if da != db:
                rec.violation("class-style-differs", f"{on} class body '{label}': the decorator yields {da}, the same assignments made one by one "
                                                     f"yield {db}", case=case, on=on)


def run(ctx, rec):
    attach(rec)
    rng = ctx.rng("c18")
    names = ["x", "y", "z"]
    mops = [(op, n, k) for op in ("setattr", "add") for n in names for k in MKINDS]
    bops = [(op, n, k) for op in ("setattr", "add") for n in names for k in BKINDS]
    L = 3
    count = 0

    def feed(hist, on):
        nonlocal count
        hist = [list(x) for x in hist]
        reuse = len({h[1] for h in hist}) < len(hist)
        rec.case(key=jhash([on, hist]), nontrivial=reuse, sample={"on": on, "history": hist} if count % 20000 == 11 else None)
        count += 1
        try:
            run_history(rec, hist, on)
        except Exception as e:
            rec.violation("edit-raised", f"{on} history {hist} raised {type(e).__name__}: {e}", case={"kind": on, "history": hist})

    mh = [h_ for l in range(1, L + 1) for h_ in itertools.product(mops, repeat=l)]
    bh = [h_ for l in range(1, L + (1 if ctx.quick else 2)) for h_ in itertools.product(bops, repeat=l)]
    if not ctx.quick:
        red = [(op, n, k) for op in ("setattr", "add") for n in ("x", "y") for k in MKINDS]
        mh += list(itertools.product(red, repeat=4))
    if ctx.nshards > 1:
        mh, bh = mh[ctx.shard:: ctx.nshards], bh[ctx.shard:: ctx.nshards]
    for h_ in mh:
        feed(h_, "module")
    for h_ in bh:
        feed(h_, "bundle")
    rec.extra["exhaustive_lengths"] = {"module": L, "bundle": L + 1, "module_reduced_alphabet_len4": not ctx.quick}
    for _ in range(2000 if ctx.quick else 40000):
        n = rng.randint(4, 8)
        on = "module" if rng.random() < 0.7 else "bundle"
        feed([rng.choice(mops if on == "module" else bops) for _ in range(n)], on)
    # histories that re-use objects under several names / in two modules
    aops_m = [(t, op, n, v) for t in (0, 1) for op in ("setattr", "add") for n in ("x", "y") for v in ("P0", "P1", "P2", "FS", "FB")]
    aops_b = [(t, op, n, v) for t in (0, 1) for op in ("setattr", "add") for n in ("x", "y") for v in ("P0", "P1", "FS", "FB")]
    for on, aops in (("module", aops_m), ("bundle", aops_b), ("mixed", aops_b)):
        hs_ = [h_ for l in (2, 3) for h_ in itertools.product(aops, repeat=l)]
        if ctx.quick:
            hs_ = rng.sample(hs_, 3000)
        elif ctx.nshards > 1:
            hs_ = hs_[ctx.shard:: ctx.nshards]
        for h_ in hs_:
            hh = [list(x) for x in h_]
            rec.case(key=jhash(["alias", on, hh]), nontrivial=True, sample=None)
            try:
                alias_history(rec, hh, on)
            except Exception as e:
                rec.violation("edit-raised", f"alias {on} history {hh} raised {type(e).__name__}: {e}", case={"kind": "alias", "on": on, "history": hh})
    # exported final states
    for _ in range(400 if ctx.quick else 4000):
        n = rng.randint(2, 6)
        export_check(rec, [list(rng.choice(mops)) for _ in range(n)])
    if ctx.shard == 0:
        reject_probes(rec)
        class_vs_procedural(rec, rng, 150 if ctx.quick else 2000)
        class_body_probes(rec)
        taking_probes(rec)
        visibility_probes(rec)
    rec.exhaustive = ctx.nshards == 1
    _state["rec"] = None


def shards(ctx):
    return 8


def replay(ctx, rec, case):
    attach(rec)
    rec.case(key=jhash(case), nontrivial=True, sample=case)
    if case.get("kind") in ("module", "bundle") and case.get("history"):
        run_history(rec, [tuple(x) for x in case["history"]], case["kind"])
    elif case.get("kind") == "export":
        export_check(rec, case["history"])
    elif case.get("kind") == "probe":
        reject_probes(rec)
    elif case.get("kind") == "taking":
        taking_probes(rec)
    elif case.get("kind") == "visibility":
        visibility_probes(rec)
    elif case.get("kind") == "style":
        import random

        class_vs_procedural(rec, random.Random(0), 1)
    rec.counters["M-ns.module"] += 0
