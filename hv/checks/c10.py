"""
C10 -- bundle ports flatten to the documented names, directions and visibility.

Reference model = the rule as written in the statement, evaluated on the spec (`expected_ports`); observed = ports
(name, width, direction) of the exported child module; connection agreement = the C01 partition oracle on a
parent/child pair connected by bundle instance, by anonymous bundle and by port reference.
"""

from __future__ import annotations

import itertools

from .. import oracle, refsem, pkgread
from ..runner import jhash

LEVEL = "exploration"
RULE = ("cases = bundle definition trees (depth <= 2 quick / 3 thorough, fan-out <= 2 / 3) x leaf kinds {in, out, inout, undirected "
        "port, role-directed, plain} x leaf widths {1, 3} x flip at every sub-bundle level x top-level flip by constructor flag "
        "or by flipped() x instance role {none, source, destination, other} (also on sub-bundle instances) x connection form "
        "{bundle instance, anonymous bundle, port reference}; each case exports a parent/child pair where the child exposes the "
        "bundle as a port AND holds an internal instance of it; the box is sampled by seed and the coverage matrix "
        "(leaf kind x flip parity x role relation x depth) is reported. distinct = case hash; non-trivial = at least one "
        "directed or role-carrying leaf")
ASSUMPTIONS = [
    "the role that decides a role-carrying leaf is that of the innermost bundle instance holding the leaf; flips do not apply to it",
    "flattened name = instance name and member path joined by underscores (no collisions in these designs; C05 covers clashes)",
    "port order is not part of the rule",
]
REQUIRED_COUNTERS = ["ports.compared", "oracle.compared"]
MIN_EVALS = 800
MIN_NONTRIVIAL = 600

ROLES = ["A", "B", "C"]
LEAFKINDS = ["in", "out", "inout", "port", "role", "plain"]


def flip_dir(d):
    return {"in": "out", "out": "in"}.get(d, d)


def expected_leaves(design, bname, flips, inst_role, path=()):
    """[(path, width, direction)] of a PORT instance of bundle bname with accumulated flip parity `flips`."""
    b = design["bundles"][bname]
    out = []
    for s in b["sigs"]:
        name, w, kind = s
        if kind in ("in", "out", "inout", "port"):
            d = {"in": "in", "out": "out", "inout": "inout", "port": "none"}[kind]
            if flips:
                d = flip_dir(d)
        elif kind == "sig":
            d = "none"
        else:  # ["role", src, dest]
            if inst_role is None:
                d = "none"
            elif inst_role == kind[1]:
                d = "out"
            elif inst_role == kind[2]:
                d = "in"
            else:
                d = "none"
        out.append((path + (name,), w, d))
    for sub in b["subs"]:
        subrole = sub[3] if len(sub) > 3 else None
        out += expected_leaves(design, sub[1], flips ^ bool(sub[2]), subrole, path + (sub[0],))
    return out


DIRNAME = {0: "none", 1: "in", 2: "out", 3: "inout"}


def observed_ports(pkg, modname_suffix):
    import vlsir.circuit_pb2 as vckt

    for m in pkg.modules:
        if m.name.split(".")[-1].startswith(modname_suffix):
            sw = {s.name: s.width for s in m.signals}
            dn = {vckt.Port.Direction.INPUT: "in", vckt.Port.Direction.OUTPUT: "out", vckt.Port.Direction.INOUT: "inout",
                  vckt.Port.Direction.NONE: "none"}
            return {p.signal: (sw.get(p.signal), dn[p.direction]) for p in m.ports}, sw
    return None, None


def gen_leaf(rng, idx):
    kind = rng.choice(LEAFKINDS)
    w = rng.choice([1, 3])
    name = f"l{idx}"
    if kind == "role":
        src, dest = rng.sample(ROLES, 2)
        return [name, w, ["role", src, dest]]
    return [name, w, {"plain": "sig"}.get(kind, kind)]


def gen_bundle(rng, bundles, depth, maxdepth, fan, counter):
    name = f"T{next(counter)}"
    nleaf = rng.randint(1 if depth == maxdepth else 0, 2)
    sigs = [gen_leaf(rng, k) for k in range(nleaf)]
    subs = []
    if depth < maxdepth:
        for k in range(rng.randint(0 if sigs else 1, fan)):
            sub = gen_bundle(rng, bundles, depth + 1, maxdepth, fan, counter)
            subs.append([f"s{k}", sub, rng.random() < 0.5, rng.choice([None, None] + ROLES)])
    if not sigs and not subs:
        sigs = [gen_leaf(rng, 0)]
    if subs and rng.random() < 0.12:
        # a leaf whose name coincides with the joined path of a sub-bundle's leaf (`clk_p` next to `clk.p`)
        sname, sbun = subs[0][0], bundles[subs[0][1]]
        inner = sbun["sigs"][0][0] if sbun["sigs"] else None
        if inner is not None:
            amb = gen_leaf(rng, 9)
            amb[0] = f"{sname}_{inner}"
            sigs.append(amb)
    bundles[name] = {"sigs": sigs, "subs": subs, "roles": list(ROLES)}
    xr = rng.random()
    if xr < 0.3:
        bundles[name]["roles_via"] = "unnamed"  # class-style definition with roles from h.Roles(n)
    elif xr < 0.45:
        bundles[name]["roles_via"] = "unnamed-procedural"  # procedural definition, roles from h.Roles(n) in a ready-made RoleSet
    x = rng.random()
    if x < 0.3:
        bundles[name]["leaves_via"] = "mult" if x < 0.15 else "copy"  # leaves made as `n * h.Signal(...)` / by copy()
    return name


def make_case(rng, maxdepth, fan):
    bundles = {}
    counter = itertools.count()
    root = gen_bundle(rng, bundles, 1, maxdepth, fan, counter)
    flip = rng.random() < 0.5
    role = rng.choice([None] + ROLES)
    via = rng.choice(["ctor", "fn"])
    form = rng.choice(["inst", "anon", "pref"])
    design = {"bundles": bundles, "modules": [], "top": "T"}
    leaves = refsem.bundle_leaves(design, root)
    obs = []
    bare = rng.random() < 0.3  # a child that leaves (most of) its bundle port's members unused inside
    for k, (path, w) in enumerate(leaves):
        if bare and k > 0:
            continue
        obs.append({"name": f"o{k}", "kind": "single", "of": ["leaf", refsem.wleaf(w)], "tag": 10 + k, "conns": {"p": ["bref", "bp", list(path)]}})
    for k, (path, w) in enumerate(leaves):
        if bare and k > 0:
            continue
        obs.append({"name": f"q{k}", "kind": "single", "of": ["leaf", refsem.wleaf(w)], "tag": 50 + k, "conns": {"p": ["bref", "bi", list(path)]}})
    bp = ["bp", root, flip, role] + (["fn"] if via == "fn" else [])
    ch = {"name": "Ch", "style": "proc", "ports": [], "bports": [bp], "sigs": [], "buns": [["bi", root]], "insts": obs}
    c0 = {"bp": ["bun", "bb"]}
    if form == "inst":
        c1 = {"bp": ["bun", "bb"]}
    elif form == "pref":
        c1 = {"bp": ["pref", "c0", "bp"]}
    else:
        def anon_of(bname, prefix):
            b = bundles[bname]
            mem = {}
            for s in b["sigs"]:
                mem[s[0]] = ["bref", "b2", prefix + [s[0]]]
            for sub in b["subs"]:
                mem[sub[0]] = ["bref", "b2", prefix + [sub[0]]] if rng.random() < 0.5 else anon_of(sub[1], prefix + [sub[0]])
            return ["anon", mem]

        c1 = {"bp": anon_of(root, [])}
    top = {"name": "T", "style": "proc", "ports": [], "bports": [], "sigs": [], "buns": [["bb", root], ["b2", root]],
           "insts": [{"name": "c0", "kind": "single", "of": ["mod", "Ch"], "tag": None, "conns": c0},
                     {"name": "c1", "kind": "single", "of": ["mod", "Ch"], "tag": None, "conns": c1}]}
    if form == "anon":
        # observers on b2 so that the anonymous bundle's sources are terminals of the partition
        for k, (path, w) in enumerate(leaves):
            top["insts"].append({"name": f"z{k}", "kind": "single", "of": ["leaf", refsem.wleaf(w)], "tag": 90 + k, "conns": {"p": ["bref", "b2", list(path)]}})
    for mspec in (ch, top):
        mspec["vis_via"] = rng.choice(["ctor-bool", "ctor-bool", "ctor-vis", "attr-bool", "attr-vis"])
    design["modules"] = [ch, top]
    meta = {"root": root, "flip": flip, "role": role, "via": via, "form": form, "vis_via": [ch["vis_via"], top["vis_via"]]}
    return design, meta


def judge(rec, design, meta, sample=False, reuse=None):
    root = meta["root"]
    exp = expected_leaves(design, root, meta["flip"], meta["role"])
    directed = any(d != "none" for _, _, d in exp) or any(isinstance(s[2], list) for b in design["bundles"].values() for s in b["sigs"])
    case = {"kind": "c10", "design": design, "meta": meta}
    rec.case(key=jhash(case), nontrivial=directed,
             sample={"meta": meta, "bundles": design["bundles"], "expected_ports": [["bp_" + "_".join(p), w, d] for p, w, d in exp]} if sample else None)
    o = oracle.judge(design, reuse=reuse)
    if reuse is not None:
        rec.count("driver.bundle-definitions-reused")
    if o.status == "rejected":
        rec.count("outcome.rejected")
        rec.hist("rejections", o.exc[:80])
        return
    if o.status == "invalid-spec":
        rec.count("generator.invalid-spec")
        return
    rec.count("oracle.compared")
    if o.status != "ok":
        rec.violation("bundle-connection-disagrees", f"parent and child disagree on which flattened port carries which member "
                                                     f"(form={meta['form']}): " + "; ".join(o.diffs[:3]), case=case, form=meta["form"])
    ports, sigw = observed_ports(o.pkg, "Ch")
    if ports is None:
        rec.violation("child-module-missing", "module Ch is not in the package", case=case)
        return
    rec.count("ports.compared")
    want = {"bp_" + "_".join(p): (w, d) for p, w, d in exp}
    if len(want) != len(exp):
        # two leaves whose joined paths coincide: which of them gets the plain name is not laid down; demanded are one port per
        # leaf, each with its leaf's width and direction, under the joined name up to trailing underscores
        rec.count("ports.ambiguous-names")
        from collections import Counter

        wantc = Counter(("bp_" + "_".join(p), w, d) for p, w, d in exp)
        gotc = Counter((n.rstrip("_") if n.rstrip("_") in want else n, w, d) for n, (w, d) in ports.items())
        if wantc != gotc:
            rec.violation("flattened-ports-wrong", f"leaves with coinciding joined names: expected ports (name up to trailing underscores, width, direction) "
                                                   f"{sorted(wantc.elements())}, exported {sorted(gotc.elements())}", case=case)
        nsig = Counter()
        for p, w, _ in exp:
            nsig[("bi_" + "_".join(p), w)] += 1
        gots = Counter((n.rstrip("_"), w) for n, w in sigw.items() if n.startswith("bi_"))
        if nsig != gots:
            rec.violation("internal-bundle-signal-wrong", f"internal bundle leaves with coinciding joined names: expected {sorted(nsig.elements())}, "
                                                          f"exported {sorted(gots.elements())}", case=case)
        return o
    for name, (w, d) in want.items():
        depth = name.count("_")
        rec.hist("coverage", f"dir={d}")
        if name not in ports:
            rec.violation("flattened-port-missing", f"expected flattened port {name} (width {w}, {d}); exported ports: {sorted(ports)}", case=case)
        elif ports[name] != (w, d):
            what = "direction" if ports[name][0] == w else "width"
            rec.violation(f"flattened-port-{what}-wrong", f"port {name}: exported (width, direction) = {ports[name]}, documented rule gives {(w, d)} "
                                                         f"[top flip={meta['flip']} via {meta['via']}, role={meta['role']}]", case=case, via=meta["via"])
    for name in ports:
        if name not in want:
            rec.violation("unexpected-port", f"module Ch exports port {name} {ports[name]} which is no leaf of its bundle port "
                                             f"(leaves of non-port bundle instances must become internal signals)", case=case)
    # internal instance `bi`: leaves are internal signals with the documented names
    for p, w, _ in exp:
        n = "bi_" + "_".join(p)
        if sigw.get(n) != w:
            rec.violation("internal-bundle-signal-wrong", f"internal bundle leaf {n}: exported signal width {sigw.get(n)}, expected {w}", case=case)
    for leafkind in {("role" if isinstance(s[2], list) else s[2]) for b in design["bundles"].values() for s in b["sigs"]}:
        rec.hist("coverage_leafkinds", leafkind)
    rec.hist("coverage_forms", f"{meta['form']}/{meta['via']}/flip={meta['flip']}/role={'set' if meta['role'] else 'none'}")
    return o


def invented_name_probes(rec):
    """The flattened names of a bundle port's leaves are its documented ones whatever else the module holds that elaboration has to
    invent names for: implicit nets of port references, nameless no-connects, elements of pairs and arrays, implicit bundle nets."""
    import hdl21 as h

    def ports_of(top):
        pkg = h.to_proto(top)
        m = pkg.modules[-1]
        return [p.signal for p in m.ports]

    def build(variant, uid):
        B = h.Bundle(name=f"NpB{uid}")
        B.add(h.Input(), name="b_c")
        B.add(h.Output(), name="d")
        Leaf = h.Module(name=f"NpLeaf{uid}")
        Leaf.add(h.Inout(), name="c")
        m = h.Module(name=f"NpM{uid}")
        want = ["a_b_c", "a_d"]
        if variant in ("baseline", "portref", "noconn", "named-noconn", "array-element"):
            m.add(B(port=True), name="a")
        if variant == "baseline":
            m.n = h.Signal()
            m.a_b = Leaf(c=m.n)
            m.k = Leaf(c=m.n)
        elif variant == "portref":
            m.a_b = Leaf()
            m.k = Leaf(c=m.a_b.c)
        elif variant == "noconn":
            m.a_b = Leaf(c=h.NoConn())
        elif variant == "named-noconn":
            m.a_b = Leaf(c=h.NoConn(name="zz"))
        elif variant == "array-element":
            B4 = h.Bundle(name=f"NpB4{uid}")
            B4.add(h.Input(), name="b_0_c")
            m.add(B4(port=True), name="q")
            m.q_b = 2 * Leaf()
            m.k = Leaf(c=m.n) if False else Leaf(c=h.NoConn())
            m.j = 2 * Leaf(c=m.q_b.c)
            want = ["a_b_c", "a_d", "q_b_0_c"]
        elif variant == "bundle-portref":
            Q = h.Bundle(name=f"NpQ{uid}")
            Q.add(h.Input(), name="c")
            B3 = h.Bundle(name=f"NpB3{uid}")
            B3.add(h.Input(), name="b_q_c")
            LeafQ = h.Module(name=f"NpLeafQ{uid}")
            LeafQ.add(Q(port=True), name="q")
            m.add(B3(port=True), name="a")
            m.a_b = LeafQ()
            m.k = LeafQ(q=m.a_b.q)
            want = ["a_b_q_c"]
        elif variant in ("nested-siblings-first", "nested-siblings-second", "nested-deep-second"):
            # a port bundle holding several sub-bundles of ONE definition; the implicit net takes aim at a leaf of one of them
            Lane = h.Bundle(name=f"NpLane{uid}")
            Lane.add(h.Input(), name="i")
            Lane.add(h.Output(), name="c")
            Link = h.Bundle(name=f"NpLink{uid}")
            Link.add(Lane(), name="tx")
            Link.add(Lane(), name="rx")
            outer = Link
            want = ["link_tx_i", "link_tx_c", "link_rx_i", "link_rx_c"]
            which = "tx" if variant.endswith("first") else "rx"
            if variant == "nested-deep-second":
                Trunk = h.Bundle(name=f"NpTrunk{uid}")
                Trunk.add(Link(), name="a")
                Trunk.add(Link(), name="b")
                outer = Trunk
                want = [f"link_{x}_{y}_{z}" for x in "ab" for y in ("tx", "rx") for z in "ic"]
                which = "b_rx"
            m.add(outer(port=True), name="link")
            m.add(Leaf(), name=f"link_{which}")
            m.k = Leaf(c=m.get(f"link_{which}").c)
        elif variant == "pair":
            B2 = h.Bundle(name=f"NpB2{uid}")
            B2.add(h.Input(), name="b_p")
            m.add(B2(port=True), name="a")
            m.s = h.Signal()
            m.a_b = h.Pair(Leaf)(c=m.s)
            want = ["a_b_p"]
        return m, want

    for k, variant in enumerate(("baseline", "portref", "noconn", "named-noconn", "array-element", "bundle-portref", "pair",
                                 "nested-siblings-first", "nested-siblings-second", "nested-deep-second")):
        for order in ("bundle-first",):
            rec.count("invented-names.probed")
            case = {"kind": "invented-name", "variant": variant}
            rec.case(key=f"invented-name:{variant}", nontrivial=True, sample=case)
            m, want = build(variant, f"{k}_{next(_np_uid)}")
            try:
                ports = ports_of(m)
            except Exception as e:
                rec.count("invented-names.rejected")
                continue
            rec.count("invented-names.compared")
            if sorted(ports) != sorted(want):
                rec.violation("flattened-port-name-displaced", f"[{variant}] a bundle port's leaves are exported as {sorted(ports)}, their documented names are "
                                                                f"{sorted(want)}: a name invented for an internal net or instance took one", case=case, variant=variant)


def template_probes(rec):
    """Bundle instances made FROM another instance kept in a variable (`h.flipped(t)`, `copy(t)`, `n * t`) - several of them from one
    template, in every order: each is what the same expression gives when it is the only one, and the template stays as declared."""
    import copy as _copy

    import hdl21 as h

    def ports_of(m):
        pm = h.to_proto(m).modules[-1]
        return sorted((p.signal, int(p.direction)) for p in pm.ports)

    ops = {"flipped": lambda t: h.flipped(t), "copy": lambda t: _copy.copy(t), "mult": lambda t: (2 * t)[1], "self": None}
    for named in (False, True):
        for tflip in (False, True):
            for seq in itertools.permutations(["flipped", "flipped", "copy", "mult", "self"], 3):
                uid = next(_np_uid)
                Chan = h.Bundle(name=f"TpChan{uid}")
                Chan.add(h.Input(), name="i")
                Chan.add(h.Output(width=2), name="o")
                rec.count("templates.probed")
                case = {"kind": "template", "named": named, "template_flipped": tflip, "sequence": list(seq)}
                rec.case(key=f"template:{named}:{tflip}:{seq}", nontrivial=True, sample=case if uid % 40 == 0 else None)
                try:
                    tmpl = h.BundleInstance(of=Chan, port=True, flipped=tflip, name="tmpl" if named else None)
                    got_m, ref_m = h.Module(name=f"TpGot{uid}"), h.Module(name=f"TpGot{uid}")
                    used_self = False
                    for k, op in enumerate(seq):
                        if op == "self":
                            if used_self:
                                continue
                            used_self = True
                            val, flip = tmpl, tflip
                        else:
                            val, flip = ops[op](tmpl), (not tflip if op == "flipped" else tflip)
                        val.name = None
                        got_m.add(val, name=f"p{k}")
                        ref_m.add(h.BundleInstance(of=Chan, port=True, flipped=flip), name=f"p{k}")
                    got, ref = ports_of(got_m), ports_of(ref_m)
                except Exception as e:
                    rec.violation(f"template-use-raises:{type(e).__name__}", f"bundle instances derived from one template ({seq}, template "
                                  f"{'named' if named else 'unnamed'}, flipped={tflip}) raised: {str(e)[:100]}", case=case)
                    continue
                rec.count("templates.compared")
                if got != ref:
                    rec.violation("flattened-port-direction-wrong", f"bundle ports derived from one {'named' if named else 'unnamed'} template instance (flipped={tflip}) by "
                                  f"{seq}: exported (port, direction) {got}, each expression on its own gives {ref}", case=case, via="template")


_np_uid = itertools.count()


def run(ctx, rec):
    if ctx.shard == 0:
        invented_name_probes(rec)
        template_probes(rec)
    rng = ctx.rng("c10")
    n = 3000 if ctx.quick else 16000
    for k in range(n):
        if ctx.quick:
            maxdepth, fan = rng.choice([(1, 2), (2, 2), (2, 2)])
        else:
            maxdepth, fan = rng.choice([(1, 3), (2, 2), (2, 3), (3, 2), (3, 3)])
        design, meta = make_case(rng, maxdepth, fan)
        o = judge(rec, design, meta, sample=(k % 300 == 5))
        if k % 3 == 0 and o is not None and o.built is not None:
            # a second design of the process using the SAME Bundle definitions (they were flattened once already)
            judge(rec, design, meta, reuse=o.built)
    rec.exhaustive = False


def shards(ctx):
    return 16


def replay(ctx, rec, case):
    if case.get("kind") == "invented-name":
        invented_name_probes(rec)
        return
    if case.get("kind") == "template":
        template_probes(rec)
        return
    o = judge(rec, case["design"], case["meta"], sample=True)
    if o is not None and o.built is not None:
        judge(rec, case["design"], case["meta"], reuse=o.built)
