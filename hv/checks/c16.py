"""
C16 -- flatten() preserves leaf-level connectivity.

Differential through one independent reader: R2(to_proto(m)) vs R2(to_proto(flatten(m))): leaves identified by their
unique tags (paths decoded from the ':'-joined names when unambiguous, else matched by bijection search); the flat
module must hold only leaf instances, one per leaf device, and have m's ports.  R1 additionally cross-checks the
hierarchical reading.  Designs with Slice/Concat connections may be rejected, never flattened wrongly.
"""

from __future__ import annotations

import copy

from .. import build, oracle, pkgread, refsem
from ..runner import jhash

LEVEL = "exploration"
RULE = ("designs = seeded hierarchies of depth <= 5 with shared sub-modules, scalar and bus nets, internal nets at every level, "
        "ports passed through several levels, primitive and external-module leaves at every depth, zero-port self-contained "
        "sub-modules, mixed leaf/hierarchical siblings, and signal / instance names chosen to collide with the ':'-joined path "
        "names flatten generates; whole-signal connections only for the must-flatten domain, plus a sample with slices / "
        "concatenations (may be rejected). distinct = design hash; non-trivial = depth >= 2 and >= 2 leaves")
ASSUMPTIONS = [
    "must-flatten domain = whole-signal connections, primitive / external-module leaves; other designs may be rejected",
    "leaf identity = unique tag parameter; instance naming of the flat module is free",
]
REQUIRED_COUNTERS = ["oracle.compared"]
MIN_EVALS = 300
MIN_NONTRIVIAL = 200

LEAFS = ["E1", "E2", "E3", "E5", "R", "C", "VCVS", "MOS"]


def gen_design(rng, collide=False, slices=False):
    nmods = rng.randint(2, 5)
    design = {"bundles": {}, "modules": [], "top": None}
    tag = [0]

    def newtag():
        tag[0] += 1
        return tag[0]

    for idx in range(nmods):
        last = idx == nmods - 1
        ports = []
        sigw = {}
        nports = rng.randint(0 if (idx > 0 and rng.random() < 0.15) else 1, 3)
        for k in range(nports):
            w = rng.randint(1, 3)
            n = f"p{k}"
            ports.append([n, w, rng.choice(["in", "out", "inout", "none"])])
            sigw[n] = w
        sigs = []
        for k in range(rng.randint(0, 2)):
            w = rng.randint(1, 3)
            n = f"s{k}"
            sigs.append([n, w])
            sigw[n] = w
        insts = []
        prior = [m["name"] for m in design["modules"]]
        ninst = rng.randint(1, 3)
        for k in range(ninst):
            if prior and rng.random() < (0.75 if last else 0.55):
                of = ["mod", rng.choice(prior[-2:] if rng.random() < 0.7 else prior)]
                t = None
            else:
                of = ["leaf", rng.choice(LEAFS)]
                t = newtag()
            name = f"i{k}"
            insts.append({"name": name, "kind": "single", "of": of, "tag": t, "conns": {}})
        m = {"name": f"M{idx}", "style": "proc", "ports": ports, "bports": [], "sigs": sigs, "buns": [], "insts": insts}
        design["modules"].append(m)
        for inst in insts:
            sp, _ = refsem.iface(design, inst["of"])
            for port, w in sp.items():
                exact = [n for n, sw in sigw.items() if sw == w]
                if exact and rng.random() < 0.8:
                    inst["conns"][port] = ["sig", rng.choice(exact)]
                elif slices and rng.random() < 0.5 and [n for n, sw in sigw.items() if sw > w]:
                    n = rng.choice([n for n, sw in sigw.items() if sw > w])
                    inst["conns"][port] = ["slice", ["sig", n], [0, w, None]]
                else:
                    n = f"n{len(sigs)}"
                    sigs.append([n, w])
                    sigw[n] = w
                    inst["conns"][port] = ["sig", n]
    design["top"] = design["modules"][-1]["name"]
    reach = set()

    def visit(n):
        if n in reach:
            return
        reach.add(n)
        for i in refsem.get_module(design, n)["insts"]:
            if i["of"][0] == "mod":
                visit(i["of"][1])

    visit(design["top"])
    design["modules"] = [m for m in design["modules"] if m["name"] in reach]
    if collide:
        # rename signals / instances of the top so that they equal names flatten() will generate: "<inst>:<signal>"
        top = design["modules"][-1]
        cands = []
        for i in top["insts"]:
            if i["of"][0] == "mod":
                child = refsem.get_module(design, i["of"][1])
                for s in child["sigs"]:
                    cands.append(f"{i['name']}:{s[0]}")
                for ci in child["insts"]:
                    cands.append(f"{i['name']}:{ci['name']}")
        rng.shuffle(cands)
        used = {p[0] for p in top["ports"]} | {s[0] for s in top["sigs"]} | {i["name"] for i in top["insts"]}
        for c in cands[:2]:
            if c in used:
                continue
            if top["sigs"] and rng.random() < 0.6:
                old = rng.choice(top["sigs"])[0]
                for s in top["sigs"]:
                    if s[0] == old:
                        s[0] = c
                for i in top["insts"]:
                    i["conns"] = {p: (["sig", c] if e == ["sig", old] else e) for p, e in i["conns"].items()}
            else:
                leafs = [i for i in top["insts"] if i["of"][0] == "leaf"]
                if leafs:
                    rng.choice(leafs)["name"] = c
            used.add(c)
    return design


def depth_of(design):
    d = {}

    def dep(n):
        if n in d:
            return d[n]
        m = refsem.get_module(design, n)
        d[n] = 1 + max([dep(i["of"][1]) for i in m["insts"] if i["of"][0] == "mod"] or [0])
        return d[n]

    return dep(design["top"])


def judge(rec, label, design, must_flatten, sample=False, history=False):
    import hdl21 as h

    inv = refsem.validate(design)
    if inv is not None:
        rec.count("generator.invalid-spec")
        return
    ref1 = refsem.flatten(design)
    case = {"kind": "c16", "label": label, "design": design, "must_flatten": must_flatten}
    rec.case(key=jhash(design), nontrivial=depth_of(design) >= 2 and len(ref1.leaves) >= 2,
             sample={"label": label, "depth": depth_of(design), "leaves": len(ref1.leaves), "top": design["modules"][-1]} if sample else None)
    try:
        built = build.build(design)
    except Exception as e:
        rec.count("outcome.base-rejected")
        return
    flat_m = judge_module(rec, label, built.top, case, must_flatten)
    if history and flat_m is not None:
        # the flat result is asked whether it is flat, then EXTENDED by a hierarchical instance and flattened again
        from hdl21.flatten import is_flat

        subs = [m for n, m in built.modules.items() if m is not built.top]
        if subs:
            rec.count("history.extended-after-flatten")
            try:
                from hdl21.flatten import flatten as hflatten

                flat_m = hflatten(built.top)  # a second, not yet exported (so still editable) flat copy
                was = is_flat(flat_m)
                sub = subs[-1]
                conns = {pn: flat_m.add(h.Signal(width=p.width), name=f"zz_ext_{pn}") for pn, p in sub.ports.items()}
                flat_m.add(h.Instance(of=sub)(**conns), name="zz_ext")
            except Exception as e:
                rec.count("history.extension-refused")
                return
            if not was:
                rec.violation("flat-module-not-flat", f"[{label}] is_flat() of the module returned by flatten() is False", case=case)
            judge_module(rec, label + " (extended after flatten)", flat_m, case, must_flatten)


def judge_module(rec, label, top, case, must_flatten):
    """Compare flatten(top) with top itself (both read back from their exported packages).  Returns the flat module or None."""
    import hdl21 as h

    try:
        pkg = h.to_proto(top)
        hier = pkgread.flatten(pkg)
    except Exception as e:
        rec.count("outcome.base-rejected")
        return None
    try:
        from hdl21.flatten import flatten as hflatten

        flat_m = hflatten(top)
    except Exception as e:
        rec.count("outcome.flatten-rejected")
        rec.hist("flatten_rejections", oracle.exc_sig(e)[:70])
        if must_flatten:
            rec.violation(f"flatten-rejects:{type(e).__name__}", f"[{label}] flatten() raised on a design of whole-signal connections and "
                                                                f"primitive/external leaves: {oracle.exc_sig(e)[:140]}", case=case)
        return
    try:
        fpkg = h.to_proto(flat_m)
        flat = pkgread.flatten(fpkg)
    except Exception as e:
        rec.violation("flat-module-unexportable", f"[{label}] the module returned by flatten() cannot be exported/read: {oracle.exc_sig(e)[:140]}", case=case)
        return
    rec.count("oracle.compared")
    rec.hist("flat_leaves", min(len(flat.leaves), 20))
    # only leaf instances, one per leaf device
    deep = [p for p in flat.leaves if len(p) != 1]
    if deep or len(fpkg.modules) != 1 and any(i.module.WhichOneof("to") == "local" for i in fpkg.modules[-1].instances):
        rec.violation("flat-module-not-flat", f"[{label}] flatten() returned a module that still has hierarchical instances "
                                             f"({[i.name for i in fpkg.modules[-1].instances if i.module.WhichOneof('to') == 'local'][:4]})", case=case)
        return
    if len(flat.leaves) != len(hier.leaves):
        rec.violation("flat-leaf-count", f"[{label}] hierarchy has {len(hier.leaves)} leaf devices, flatten() produced {len(flat.leaves)}", case=case)
        return
    if sorted(flat.ports) != sorted(hier.ports):
        rec.violation("flat-ports-changed", f"[{label}] ports {sorted(flat.ports)} != {sorted(hier.ports)}", case=case)
        return
    # try the ':'-decoding of names first (unambiguous when no designer name contains ':')
    diffs = None
    names_have_colon = any(":" in seg for p in hier.leaves for seg in p)
    if not names_have_colon:
        dec = refsem.Flat()
        dec.ports = flat.ports
        mp = {p: tuple(p[0].split(":")) for p in flat.leaves}
        dec.leaves = {mp[p]: v for p, v in flat.leaves.items()}
        dec.nets = frozenset(frozenset(("L", mp[t[1]], t[2], t[3]) if t[0] == "L" else t for t in net) for net in flat.nets)
        if set(dec.leaves) == set(hier.leaves) and all(dec.leaves[p][:2] == hier.leaves[p][:2] and dec.leaves[p][2] == hier.leaves[p][2] for p in dec.leaves):
            if dec.nets == hier.nets:
                diffs = []
    if diffs is None:
        diffs = pkgread.compare_renamed(hier, flat, cap=30000, ref_is_obs=True)
        if diffs is None:
            rec.count("oracle.search-too-large")
            return
    if diffs:
        rec.violation("flatten-changes-connectivity", f"[{label}] flatten() changed the circuit: " + "; ".join(diffs[:3]), case=case,
                      names_have_colon=names_have_colon)
    return flat_m


def colon_shared_designs():
    """A sub-module instance whose NAME equals the ':'-joined path of another instance of the same module: both paths reach the
    same (shared) leaf instances, under the same generated names."""
    S = lambda n: ["sig", n]
    for depth in (2, 3):
        for nleaf in (1, 2):
            cell = {"name": "Cell", "style": "proc", "ports": [["pa", 1, "inout"], ["pb", 1, "inout"]], "bports": [], "sigs": [["k", 1]], "buns": [],
                    "insts": [{"name": f"r{j}", "kind": "single", "of": ["leaf", "R"], "tag": 10 + j, "conns": {"p": S("pa"), "n": S("k" if j else "pb")}}
                              for j in range(nleaf)]}
            if nleaf == 1:
                cell["sigs"] = []
            mid = {"name": "Mid", "style": "proc", "ports": [["pa", 1, "inout"], ["pb", 1, "inout"]], "bports": [], "sigs": [], "buns": [],
                   "insts": [{"name": "b", "kind": "single", "of": ["mod", "Cell"], "tag": None, "conns": {"pa": S("pa"), "pb": S("pb")}}]}
            mods = [cell, mid]
            inner, path = "Mid", "u:b"
            if depth == 3:
                mods.append({"name": "Mid2", "style": "proc", "ports": [["pa", 1, "inout"], ["pb", 1, "inout"]], "bports": [], "sigs": [], "buns": [],
                             "insts": [{"name": "m", "kind": "single", "of": ["mod", "Mid"], "tag": None, "conns": {"pa": S("pa"), "pb": S("pb")}}]})
                inner, path = "Mid2", "u:m:b"
            for also in ((path,), (path, path.rsplit(":", 1)[0] + ":zz"), ("u:b" if depth == 3 else "u", )):
                insts = [{"name": "u", "kind": "single", "of": ["mod", inner], "tag": None, "conns": {"pa": S("x"), "pb": S("y")}}]
                for q, nm in enumerate(also):
                    if nm == "u":
                        continue
                    insts.append({"name": nm, "kind": "single", "of": ["mod", "Cell"], "tag": None, "conns": {"pa": S("y"), "pb": S(f"z{q}")}})
                top = {"name": "Top", "style": "proc", "ports": [["x", 1, "inout"]], "bports": [],
                       "sigs": [["y", 1]] + [[f"z{q}", 1] for q in range(len(also))], "buns": [], "insts": insts}
                yield f"colon-shared depth={depth} leaves={nleaf} names={also}", {"bundles": {}, "modules": copy.deepcopy(mods) + [top], "top": "Top"}


def port_metadata_probe(rec):
    """`has m's ports unchanged`: name, width, direction AND what does not reach the package - usage, description, properties,
    related signals - on the ports of the module flatten() returns."""
    import hdl21 as h
    from hdl21.flatten import flatten as hflatten

    rec.count("probe.port-metadata")
    leaf = h.Module(name=f"PmLeaf{next(build._counter)}")
    leaf.a, leaf.b = h.Input(), h.Output(width=2)
    leaf.x = build.leaf_call("E2", 3)(x=leaf.b, y=leaf.a)
    top = h.Module(name=f"PmTop{next(build._counter)}")
    top.vdd = h.Power(desc="supply")
    top.vss = h.Ground()
    top.clk = h.Clock(direction=h.PortDir.INPUT)
    top.d = h.Output(width=2, desc="data")
    top.d.props.set("k", 5) if hasattr(top.d.props, "set") else None
    top.d.related_clk = top.clk
    top.w2 = h.Signal(width=2)
    # relations to ports declared LATER than the port that refers to them, and to an internal signal
    top.en = h.Input(desc="enable")
    top.iclk = h.Signal(desc="internal clock")
    top.en.related_clk = top.iclk
    top.q = h.Output()
    top.vdd2 = h.Power()
    top.q.related_pwr = top.vdd2
    top.q.related_gnd = top.vss
    top.ru = build.leaf_call("E1", 5)(a=top.en, b=top.iclk)
    top.rq = build.leaf_call("E1", 6)(a=top.q, b=top.vdd2)
    top.u = leaf(a=top.clk, b=top.d)
    top.v = leaf(a=top.vdd, b=top.w2)
    top.g = build.leaf_call("E1", 4)(a=top.vss, b=top.vdd)
    rel = lambda p: tuple(getattr(getattr(p, f, None), "name", None) for f in ("related_clk", "related_pwr", "related_gnd"))
    want = {n: (p.width, p.direction, p.usage, p.desc, rel(p)) for n, p in top.ports.items()}
    try:
        flat = hflatten(top)
    except Exception as e:
        rec.count("probe.port-metadata-rejected")
        return
    got = {n: (p.width, p.direction, p.usage, p.desc, rel(p)) for n, p in flat.ports.items()}
    if got != want:
        diff = {n: (want.get(n), got.get(n)) for n in set(want) | set(got) if want.get(n) != got.get(n)}
        rec.violation("flat-ports-changed", f"flatten() changed port attributes (width, direction, usage, desc, related clock): {diff}",
                      case={"kind": "probe", "what": "port-metadata"})


def same_name_revisions(rec, rng, n):
    """Two DIFFERENT hierarchies whose top modules carry the same name, flattened one after the other in one process (a design revised
    and rebuilt in a session): each result is the flattening of the module it was asked for."""
    import hdl21 as h
    from hdl21.flatten import flatten as hflatten

    for k in range(n):
        name = f"Rev{next(build._counter)}"
        for rev in (1, 2):
            rec.count("history.same-name-revisions")
            top = h.Module(name=name)
            nports = 1 + rev
            ports = [top.add(h.Port(), name=f"p{i}") for i in range(nports)]
            sub = h.Module(name=f"{name}Sub{rev}")
            sub.add(h.Port(), name="a")
            sub.add(h.Port(), name="b")
            for j in range(rev + 1):
                sub.add(h.Instance(of=h.R(r=10 * rev + j))(p=sub.a, n=sub.b), name=f"r{j}")
            for i in range(nports):
                top.add(h.Instance(of=sub)(a=ports[i], b=ports[(i + 1) % nports]), name=f"s{i}")
            case = {"kind": "probe", "what": "same-name-revisions", "rev": rev}
            try:
                flat = hflatten(top)
            except Exception as e:
                rec.violation(f"flatten-raises:{type(e).__name__}", f"flatten of revision {rev} of a module named {name} raised {str(e)[:100]}", case=case)
                continue
            want_leaves = nports * (rev + 1)
            if list(flat.ports) != list(top.ports) or len(flat.instances) != want_leaves:
                rec.violation("flat-leaf-count", f"revision {rev} of a module named `{name}` ({nports} ports, {want_leaves} leaf devices) flattens to a module with ports "
                                                 f"{list(flat.ports)} and {len(flat.instances)} instances (an earlier module of that name was flattened before)", case=case)


def run(ctx, rec):
    rng = ctx.rng("c16")
    if ctx.shard == 0:
        port_metadata_probe(rec)
        same_name_revisions(rec, rng, 3)
    if ctx.shard == 0:
        for label, d in colon_shared_designs():
            rec.count("colon-shared.designs")
            judge(rec, label, d, True, sample=False)
    n = 700 if ctx.quick else 9000
    if ctx.nshards > 1:
        n = n // 2
    for k in range(n):
        judge(rec, f"hier #{k}", gen_design(rng), True, sample=(k % 250 == 1), history=(k % 4 == 0))
    for k in range(n // 4):
        judge(rec, f"colon-names #{k}", gen_design(rng, collide=True), True, sample=(k % 250 == 1))
    for k in range(n // 5):
        judge(rec, f"with-slices #{k}", gen_design(rng, slices=True), False)
    rec.exhaustive = False


def shards(ctx):
    return 16


def replay(ctx, rec, case):
    judge(rec, case.get("label", "replay"), case["design"], case.get("must_flatten", True), sample=True, history=True)
