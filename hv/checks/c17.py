"""
C17 -- simulation input export is complete and faithful.

Reference translator from a Sim *spec* (plain data) to a plain dict; decoder of the returned `vsp.SimInput` to the same
dict shape; equality decides.  A boundary recorder on the real `hdl21.sim.to_proto` counts calls and outcomes.
Generated Sims cover all attribute types, nesting of sweep / Monte-Carlo up to depth 3, every Scalar form of every numeric
field, all five SaveTarget forms, the three construction styles (procedural, add-methods, class-defined), lists of Sims
sharing / not sharing testbenches, and bad testbenches.
"""

import itertools
import math
from decimal import Decimal
from fractions import Fraction

from ..runner import jhash

LEVEL = "exploration"
RULE = ("Sim specs = seeded lists of attributes over {Op, Dc, Ac, Tran, Noise, SweepAnalysis, MonteCarlo (nesting <= 3), "
        "CustomAnalysis; Include, Lib, Save (mode / signal / list of signals / name / list of names), Meas (by analysis or type "
        "name), Param, Literal; Options (bool / number / string / Literal)}, numeric fields given as int / float / Decimal / numeric "
        "string / Prefixed on every prefix, named and unnamed analyses; each spec is built procedurally, through the "
        "add-methods and as an @sim class, exported alone and in lists (shared / separate testbenches); plus testbenches with "
        "0 / 2 ports, a bus port, a bundle port. distinct = (spec, style); non-trivial = >= 2 attributes")
ASSUMPTIONS = [
    "numeric expectation = the double nearest the exact decimal value given (floats: the float itself)",
    "unnamed analyses may receive any names as long as all analysis names of one SimInput are distinct",
    "order is compared within each of the three lists (analyses, controls, options)",
]
REQUIRED_COUNTERS = ["M-bound.sim.to_proto.calls", "siminput.compared", "style.proc", "style.add", "style.class", "lists.compared", "bad-tb.probed", "targets.diff-compared", "targets.refused", "targets.exported"]
MIN_EVALS = 600
MIN_NONTRIVIAL = 400

_uid = itertools.count()
_bound = {"rec": None, "attached": False}


def attach(rec):
    import importlib

    _bound["rec"] = rec
    if _bound["attached"]:
        return
    from .. import attach as att

    sp = importlib.import_module("hdl21.sim.proto")
    orig = sp.to_proto

    def to_proto(inp):
        r = _bound["rec"]
        if r is not None:
            r.count("M-bound.sim.to_proto.calls")
        try:
            out = orig(inp)
            if r is not None:
                r.count("M-bound.sim.to_proto.returned")
            return out
        except BaseException:
            if r is not None:
                r.count("M-bound.sim.to_proto.raised")
            raise

    att.rebind(orig, to_proto)
    _bound["attached"] = True


# ------------------------------------------------------------------------------------------------
# spec generation.  A numeric value spec is ["int", n] | ["float", hex] | ["dec", str] | ["str", str] | ["pref", number, prefix]


def rnum(rng, positive=True):
    from . import c13

    x = rng.random()
    if x < 0.25:
        v = rng.choice([1, 2, 10, 1000, 3, 7, 10 ** 6, 10 ** 12])
        return ["int", v]
    if x < 0.45:
        f = abs(c13.rand_float(rng))
        if not math.isfinite(f) or f == 0 or f > 1e300 or f < 1e-300:
            f = 2.5e-9
        return ["float", f.hex()]
    if x < 0.6:
        d = abs(c13.rand_decimal(rng, 25, 12))
        return ["dec", str(d if d != 0 else Decimal("1.5"))]
    if x < 0.72:
        return ["str", rng.choice(["1e-9", "3.30", "5", "1E+3", "0.001", "12345678901234567890.0123456789", "2.5e-12"])]
    from hdl21.prefix import Prefix

    pre = rng.choice(list(Prefix)).name
    num = rng.choice(["1", "3", "1.5", "999.999", "0.001", "7", "11", "2.50", "123456789.123456789"])
    return ["pref", num, pre]


def realise_num(v):
    import hdl21 as h

    k = v[0]
    if k == "int":
        return v[1]
    if k == "float":
        return float.fromhex(v[1])
    if k == "dec":
        return Decimal(v[1])
    if k == "str":
        return v[1]
    return h.Prefixed(number=Decimal(v[1]), prefix=h.Prefix[v[2]])


def expect_float(v) -> float:
    k = v[0]
    if k == "int":
        return float(Fraction(v[1]))
    if k == "float":
        return float.fromhex(v[1])
    if k in ("dec", "str"):
        return float(Fraction(Decimal(v[1])))
    from hdl21.prefix import Prefix

    return float(Fraction(Decimal(v[1])) * Fraction(10) ** Prefix[v[2]].value)


def rsweep(rng):
    x = rng.random()
    if x < 0.35:
        return {"k": "lin", "start": rnum(rng), "stop": rnum(rng), "step": rnum(rng)}
    if x < 0.65:
        return {"k": "log", "start": rnum(rng), "stop": rnum(rng), "npts": rng.randint(1, 50)}
    return {"k": "pts", "points": [rnum(rng) for _ in range(rng.randint(1, 4))]}


def ranalysis(rng, depth, names):
    kinds = ["op", "dc", "ac", "tran", "noise", "custom"] + (["sweep", "monte"] if depth < 3 else [])
    k = rng.choice(kinds)
    name = None
    if rng.random() < 0.5:
        # sometimes a name of the form the exporter itself gives unnamed analyses
        cands = [n for n in ("Analysis0", "Analysis1", "Analysis2", "Analysis3") if n not in names]
        name = rng.choice(cands) if cands and rng.random() < 0.3 else f"an{len(names)}"
        names.append(name)
    a = {"k": k, "name": name}
    if k == "dc":
        a.update(var=rng.choice([["str", "vdd"], ["param", "p0"]]), sweep=rsweep(rng))
    elif k == "ac":
        a.update(sweep={"k": "log", "start": rnum(rng), "stop": rnum(rng), "npts": rng.randint(1, 40)})
    elif k == "tran":
        a.update(tstop=rnum(rng), tstep=rng.choice([None, rnum(rng)]))
    elif k == "noise":
        a.update(output=rng.choice([["sig", "out"], ["str", "xtop.out"], ["pair", "out", "inp"], ["strpair", "out", "inp"], ["mixedpair", "out", "inp"], ["diff", "dd"]]), source=rng.choice([["inst", "vin"], ["str", "vsrc"]]),
                 sweep={"k": "log", "start": rnum(rng), "stop": rnum(rng), "npts": rng.randint(1, 40)})
    elif k == "custom":
        a.update(cmd=rng.choice([".pss fund=1e9", "my analysis cmd", "op2 x=y"]))
    elif k == "sweep":
        a.update(var=rng.choice([["str", "temp"], ["param", "p0"]]), sweep=rsweep(rng), inner=[ranalysis(rng, depth + 1, names) for _ in range(rng.randint(1, 2))])
    elif k == "monte":
        a.update(npts=rng.randint(1, 100), inner=[ranalysis(rng, depth + 1, names) for _ in range(rng.randint(1, 2))])
    return a


def rcontrol(rng, k=None):
    k = k or rng.choice(["include", "lib", "save", "meas", "param", "literal"])
    c = {"k": k}
    if k == "include":
        c.update(path=rng.choice(["/home/models.sp", "rel/path with space.lib", "a.scs"]))
    elif k == "lib":
        c.update(path=rng.choice(["/pdk/lib.spice", "x.lib"]), section=rng.choice(["tt", "fast", "ss_1"]))
    elif k == "save":
        c.update(targ=rng.choice([["mode", "ALL"], ["mode", "NONE"], ["sig", "out"], ["sigs", ["out", "inp"]], ["name", "xtop.a"],
                                  ["names", ["a", "b.c", "d"]], ["sigs", ["inp"]], ["names", ["z"]]]))
    elif k == "meas":
        c.update(analysis=rng.choice([["type", "tran"], ["type", "my_an"], ["obj", "tran"], ["obj", "op"]]), expr=rng.choice(["when v(out)=0.5", "max(i(vdd))"]),
                 name=f"m{rng.randint(0, 99)}")
    elif k == "param":
        c.update(name=f"p{rng.randint(0, 9)}", val=rng.choice([rnum(rng), ["lit", "a+b"], ["str", "w*2"]]))
    else:
        c.update(text=rng.choice([".option post", "* comment", "simulator lang=spice"]))
    return c


def roption(rng):
    return {"k": "opt", "name": rng.choice(["reltol", "gmin", "temp", "method", "savecurrents"]),
            "value": rng.choice([["bool", True], ["bool", False], rnum(rng), ["str", "gear"], ["lit", "1e-9*k"], ["int", 27]])}


def rspec(rng):
    names = []
    attrs = []
    for _ in range(rng.randint(1, 8)):
        x = rng.random()
        if x < 0.5:
            attrs.append(ranalysis(rng, 1, names))
        elif x < 0.85:
            attrs.append(rcontrol(rng))
        else:
            attrs.append(roption(rng))
    if rng.random() < 0.5:
        attrs.append(rcontrol(rng, "save"))
    return {"attrs": attrs}


# ------------------------------------------------------------------------------------------------
# spec -> real objects


def make_tb(kind="ok"):
    import hdl21 as h
    import hdl21.sim as hs

    n = next(_uid)
    tb = hs.tb(name=f"Tb{n}") if kind != "no-port" else h.Module(name=f"Tb{n}")
    tb.out = h.Signal()
    tb.inp = h.Signal()
    tb.vin = h.Instance(of=h.Vdc(dc=1))(p=tb.inp, n=tb.VSS if kind != "no-port" else tb.out)
    tb.r = h.Instance(of=h.R(r=1000))(p=tb.inp, n=tb.out)
    tb.c = h.Instance(of=h.C(c="1e-12"))(p=tb.out, n=tb.VSS if kind != "no-port" else tb.inp)
    if kind == "ok":
        # an internal differential pair of nets (a Diff bundle instance), for analyses that name a differential output
        tb.dd = h.Diff()
        tb.rd = h.Instance(of=h.R(r=7))(p=tb.dd.p, n=tb.dd.n)
    if kind == "two-ports":
        tb.extra = h.Port()
        tb.r2 = h.Instance(of=h.R(r=5))(p=tb.extra, n=tb.out)
    elif kind in ("scalar+bus", "scalar+two-buses"):
        tb.wide = h.Port(width=3)
        tb.r2 = h.Instance(of=h.R(r=5))(p=tb.wide[0], n=tb.out)
        if kind == "scalar+two-buses":
            tb.wide2 = h.Input(width=2)
            tb.r3 = h.Instance(of=h.R(r=5))(p=tb.wide2[1], n=tb.out)
    elif kind == "bus-port":
        tb2 = h.Module(name=f"Tb{n}b")
        tb2.VSS = h.Port(width=2)
        tb2.r = h.Instance(of=h.R(r=5))(p=tb2.VSS[0], n=tb2.VSS[1])
        return tb2
    elif kind == "bundle-port":
        tb.d = h.Diff(port=True)
        tb.r3 = h.Instance(of=h.R(r=5))(p=tb.d.p, n=tb.d.n)
    elif kind == "only-bundle-port":
        tb3 = h.Module(name=f"Tb{n}c")
        b = h.Bundle(name=f"One{n}")
        b.add(h.Signal(), name="s")
        tb3.add(h.BundleInstance(of=b, port=True), name="bp")
        tb3.add(h.Signal(), name="x")
        tb3.add(h.Instance(of=h.R(r=5))(p=tb3.bp.s, n=tb3.x), name="r")
        return tb3
    return tb


def mk_sweep(s):
    import hdl21.sim as hs

    if s["k"] == "lin":
        return hs.LinearSweep(start=realise_num(s["start"]), stop=realise_num(s["stop"]), step=realise_num(s["step"]))
    if s["k"] == "log":
        return hs.LogSweep(start=realise_num(s["start"]), stop=realise_num(s["stop"]), npts=s["npts"])
    return hs.PointSweep(points=[realise_num(p) for p in s["points"]])


def mk_attr(a, tb, params, cache):
    """Build one real attribute object (recursively for nested analyses)."""
    import hdl21 as h
    import hdl21.sim as hs

    k = a["k"]
    if k == "op":
        return hs.Op(name=a["name"])
    if k == "dc":
        var = a["var"][1] if a["var"][0] == "str" else params.setdefault(a["var"][1], hs.Param(name=a["var"][1], val=1))
        return hs.Dc(var=var, sweep=mk_sweep(a["sweep"]), name=a["name"])
    if k == "ac":
        return hs.Ac(sweep=mk_sweep(a["sweep"]), name=a["name"])
    if k == "tran":
        return hs.Tran(tstop=realise_num(a["tstop"]), tstep=None if a["tstep"] is None else realise_num(a["tstep"]), name=a["name"])
    if k == "noise":
        o = a["output"]
        if o[0] == "strpair":
            out = (o[1], o[2])
        elif o[0] == "mixedpair":
            out = (getattr(tb, o[1]), o[2])
        elif o[0] == "diff":
            out = tb.bundles[o[1]] if o[1] in tb.bundles else tb.get(o[1])
        else:
            out = getattr(tb, o[1]) if o[0] == "sig" else (o[1] if o[0] == "str" else (getattr(tb, o[1]), getattr(tb, o[2])))
        src = getattr(tb, a["source"][1]) if a["source"][0] == "inst" else a["source"][1]
        return hs.Noise(output=out, input_source=src, sweep=mk_sweep(a["sweep"]), name=a["name"])
    if k == "custom":
        return hs.CustomAnalysis(cmd=a["cmd"], name=a["name"])
    if k == "sweep":
        var = a["var"][1] if a["var"][0] == "str" else params.setdefault(a["var"][1], hs.Param(name=a["var"][1], val=1))
        return hs.SweepAnalysis(inner=[mk_attr(x, tb, params, cache) for x in a["inner"]], var=var, sweep=mk_sweep(a["sweep"]), name=a["name"])
    if k == "monte":
        return hs.MonteCarlo(inner=[mk_attr(x, tb, params, cache) for x in a["inner"]], npts=a["npts"], name=a["name"])
    if k == "include":
        return hs.Include(path=a["path"])
    if k == "lib":
        return hs.Lib(path=a["path"], section=a["section"])
    if k == "save":
        t = a["targ"]
        targ = {"mode": lambda: hs.SaveMode[t[1]], "sig": lambda: getattr(tb, t[1]), "sigs": lambda: [getattr(tb, n) for n in t[1]],
                "name": lambda: t[1], "names": lambda: list(t[1])}[t[0]]()
        return hs.Save(targ=targ)
    if k == "meas":
        an = a["analysis"]
        if an[0] == "type":
            target = an[1]
        else:
            target = cache.setdefault(("meas-an", an[1]), hs.Tran(tstop=1) if an[1] == "tran" else hs.Op())
        return hs.Meas(analysis=target, expr=a["expr"], name=a["name"])
    if k == "param":
        v = a["val"]
        val = h.Literal(v[1]) if v[0] == "lit" else realise_num(v)
        return hs.Param(name=a["name"], val=val)
    if k == "literal":
        return h.Literal(a["text"])
    if k == "opt":
        v = a["value"]
        val = v[1] if v[0] == "bool" else (h.Literal(v[1]) if v[0] == "lit" else realise_num(v))
        return hs.Options(name=a["name"], value=val)
    raise ValueError(k)


def build_sim(spec, style, tb):
    import hdl21.sim as hs

    params, cache = {}, {}
    objs = [mk_attr(a, tb, params, cache) for a in spec["attrs"]]
    if style == "proc":
        return hs.Sim(tb=tb, attrs=list(objs), name=f"S{next(_uid)}"), None
    if style == "add":
        s = hs.Sim(tb=tb, name=f"S{next(_uid)}")
        for k, o in enumerate(objs):
            if k % 3 == 2:
                s.add(o)
            else:
                s.add(*[o])
        return s, None
    # class style: attribute names become the names of the attributes
    d = {"tb": tb}
    keys = []
    for k, o in enumerate(objs):
        key = f"attr{k}"
        d[key] = o
        keys.append(key)
    cls = type(f"SimCls{next(_uid)}", (object,), d)
    return hs.sim(cls), keys


# ------------------------------------------------------------------------------------------------
# reference translation and decoding


def exp_sweep(s):
    if s["k"] == "lin":
        return {"k": "lin", "start": expect_float(s["start"]), "stop": expect_float(s["stop"]), "step": expect_float(s["step"])}
    if s["k"] == "log":
        return {"k": "log", "start": expect_float(s["start"]), "stop": expect_float(s["stop"]), "npts": float(s["npts"])}
    return {"k": "pts", "points": [expect_float(p) for p in s["points"]]}


def exp_analysis(a, name_override=None):
    k = a["k"]
    name = name_override if name_override is not None else a["name"]
    e = {"k": k, "name": name}
    if k == "dc":
        e.update(indep=a["var"][1], sweep=exp_sweep(a["sweep"]))
    elif k == "ac":
        e.update(fstart=expect_float(a["sweep"]["start"]), fstop=expect_float(a["sweep"]["stop"]), npts=a["sweep"]["npts"])
    elif k == "tran":
        e.update(tstop=expect_float(a["tstop"]), tstep=0.0 if a["tstep"] is None else expect_float(a["tstep"]))
    elif k == "noise":
        o = a["output"]
        e.update(output_p=(o[1] + "_p") if o[0] == "diff" else o[1], output_n=o[2] if o[0] in ("pair", "strpair", "mixedpair") else ((o[1] + "_n") if o[0] == "diff" else ""), input_source=a["source"][1], fstart=expect_float(a["sweep"]["start"]),
                 fstop=expect_float(a["sweep"]["stop"]), npts=a["sweep"]["npts"])
    elif k == "custom":
        e.update(cmd=a["cmd"])
    elif k == "sweep":
        e.update(variable=a["var"][1], sweep=exp_sweep(a["sweep"]), inner=[exp_analysis(x) for x in a["inner"]])
    elif k == "monte":
        e.update(npts=a["npts"], inner=[exp_analysis(x) for x in a["inner"]])
    return e


def exp_control(c, name_override=None):
    k = c["k"]
    if k == "include":
        return {"k": k, "path": c["path"]}
    if k == "lib":
        return {"k": k, "path": c["path"], "section": c["section"]}
    if k == "save":
        t = c["targ"]
        if t[0] == "mode":
            return {"k": k, "mode": t[1]}
        return {"k": k, "signal": t[1] if t[0] in ("sig", "name") else ",".join(t[1])}
    if k == "meas":
        return {"k": k, "analysis_type": c["analysis"][1], "name": name_override or c["name"], "expr": c["expr"]}
    if k == "param":
        v = c["val"]
        val = ("lit", v[1]) if v[0] in ("lit",) or (v[0] == "str" and not _numeric(v[1])) else ("num", expect_float(v))
        return {"k": k, "name": name_override or c["name"], "value": val}
    return {"k": "literal", "text": c["text"]}


def _numeric(s):
    try:
        Decimal(s)
        return True
    except Exception:
        return False


def exp_option(o, name_override=None):
    v = o["value"]
    if v[0] == "bool":
        val = ("int", int(v[1]))
    elif v[0] == "lit" or (v[0] == "str" and not _numeric(v[1])):
        val = ("lit", v[1])
    else:
        val = ("num", expect_float(v))
    return {"k": "opt", "name": name_override or o["name"], "value": val}


def dec_value(pv):
    from .. import pkgread

    d = pkgread.decode_param(pv)
    if isinstance(d, tuple) and d[0] == "pref":
        return ("num", float(d[1]))
    if isinstance(d, tuple):
        return ("lit", d[1])
    if isinstance(d, float):
        return ("num", d)
    if isinstance(d, int):
        return ("int", d)
    return ("?", d)


def dec_sweep(s):
    w = s.WhichOneof("tp")
    if w == "linear":
        return {"k": "lin", "start": s.linear.start, "stop": s.linear.stop, "step": s.linear.step}
    if w == "log":
        return {"k": "log", "start": s.log.start, "stop": s.log.stop, "npts": s.log.npts}
    if w == "points":
        return {"k": "pts", "points": list(s.points.points)}
    return {"k": None}


def dec_analysis(a):
    w = a.WhichOneof("an")
    if w == "op":
        return {"k": "op", "name": a.op.analysis_name}
    if w == "dc":
        return {"k": "dc", "name": a.dc.analysis_name, "indep": a.dc.indep_name, "sweep": dec_sweep(a.dc.sweep)}
    if w == "ac":
        return {"k": "ac", "name": a.ac.analysis_name, "fstart": a.ac.fstart, "fstop": a.ac.fstop, "npts": a.ac.npts}
    if w == "tran":
        return {"k": "tran", "name": a.tran.analysis_name, "tstop": a.tran.tstop, "tstep": a.tran.tstep}
    if w == "noise":
        n = a.noise
        return {"k": "noise", "name": n.analysis_name, "output_p": n.output_p, "output_n": n.output_n, "input_source": n.input_source,
                "fstart": n.fstart, "fstop": n.fstop, "npts": n.npts}
    if w == "custom":
        return {"k": "custom", "name": a.custom.analysis_name, "cmd": a.custom.cmd}
    if w == "sweep":
        return {"k": "sweep", "name": a.sweep.analysis_name, "variable": a.sweep.variable, "sweep": dec_sweep(a.sweep.sweep),
                "inner": [dec_analysis(x) for x in a.sweep.an]}
    if w == "monte":
        return {"k": "monte", "name": a.monte.analysis_name, "npts": a.monte.npts, "inner": [dec_analysis(x) for x in a.monte.an]}
    return {"k": None}


def dec_control(c):
    import vlsir.spice_pb2 as vsp

    w = c.WhichOneof("ctrl")
    if w == "include":
        return {"k": "include", "path": c.include.path}
    if w == "lib":
        return {"k": "lib", "path": c.lib.path, "section": c.lib.section}
    if w == "save":
        if c.save.WhichOneof("save") == "mode":
            return {"k": "save", "mode": vsp.Save.SaveMode.Name(c.save.mode)}
        return {"k": "save", "signal": c.save.signal}
    if w == "meas":
        return {"k": "meas", "analysis_type": c.meas.analysis_type, "name": c.meas.name, "expr": c.meas.expr}
    if w == "param":
        return {"k": "param", "name": c.param.name, "value": dec_value(c.param.value)}
    if w == "literal":
        return {"k": "literal", "text": c.literal}
    return {"k": None}


def all_names(ans):
    out = []
    for a in ans:
        out.append(a["name"])
        out += all_names(a.get("inner", []))
    return out


def strip_names(a, ref):
    """Blank the names of analyses that the spec left unnamed (any distinct names are acceptable)."""
    a = dict(a)
    if ref["name"] is None:
        a["name"] = None
    if "inner" in a:
        a["inner"] = [strip_names(x, r) for x, r in zip(a["inner"], ref["inner"])] + a["inner"][len(ref["inner"]):]
    return a


def compare(rec, label, spec, style, keys, inp, tbname, case):
    from hdl21.qualname import qualname

    rec.count("siminput.compared")
    attrs = spec["attrs"]
    an_specs = [(i, a) for i, a in enumerate(attrs) if a["k"] in ("op", "dc", "ac", "tran", "noise", "custom", "sweep", "monte")]
    ct_specs = [(i, a) for i, a in enumerate(attrs) if a["k"] in ("include", "lib", "save", "meas", "param", "literal")]
    op_specs = [(i, a) for i, a in enumerate(attrs) if a["k"] == "opt"]
    nm = (lambda i: keys[i]) if keys else (lambda i: None)
    want_an = [exp_analysis(a, nm(i)) for i, a in an_specs]
    want_ct = [exp_control(a, nm(i) if a["k"] in ("meas", "param") else None) for i, a in ct_specs]
    want_op = [exp_option(a, nm(i)) for i, a in op_specs]  # (class style: the attribute key is the name)
    got_an = [dec_analysis(a) for a in inp.an]
    got_ct = [dec_control(c) for c in inp.ctrls]
    got_op = [{"k": "opt", "name": o.name, "value": dec_value(o.value)} for o in inp.opts]

    def viol(sig, msg, **w):
        rec.violation(sig, f"[{label}/{style}] {msg}", case=case, style=style, **w)

    if inp.top != tbname:
        viol("siminput-top-wrong", f"top = {inp.top!r}, the testbench is {tbname!r}")
    n_tb = sum(1 for m in inp.pkg.modules if m.name == tbname)
    if n_tb != 1:
        viol("testbench-not-once-in-package", f"testbench {tbname} appears {n_tb} times in the package")
    if len(got_an) != len(want_an):
        viol("analysis-count-wrong", f"{len(want_an)} analyses given, {len(got_an)} exported ({[a['k'] for a in got_an]})")
    else:
        for g, w in zip(got_an, want_an):
            if strip_names(g, w) != w:
                viol(f"analysis-differs:{w['k']}", f"analysis exported as {strip_names(g, w)}, expected {w}", analysis=w["k"])
                break
        names = all_names(got_an)
        if len(set(names)) != len(names) or any(not n for n in names):
            viol("analysis-names-not-distinct", f"analysis names {names}")
    if len(got_ct) != len(want_ct):
        viol("control-count-wrong", f"{len(want_ct)} controls given, {len(got_ct)} exported")
    else:
        for g, w in zip(got_ct, want_ct):
            if g != w:
                viol(f"control-differs:{w['k']}", f"control exported as {g}, expected {w}", control=w["k"])
                break
    if got_op != want_op:
        viol("options-differ", f"options exported as {got_op}, expected {want_op}")


def one(rec, rng, k):
    import hdl21.sim as hs
    from hdl21.qualname import qualname

    spec = rspec(rng)
    for style in ("proc", "add", "class"):
        rec.count(f"style.{style}")
        case = {"kind": "sim", "spec": spec, "style": style}
        rec.case(key=jhash(case), nontrivial=len(spec["attrs"]) >= 2, sample=case if (k % 120 == 3 and style == "proc") else None)
        for a in spec["attrs"]:
            rec.hist("attribute_kinds", a["k"] + (":" + a["targ"][0] if a["k"] == "save" else ""))
        try:
            tb = make_tb()
            sim, keys = build_sim(spec, style, tb)
        except Exception as e:
            rec.violation(f"sim-construction-fails:{type(e).__name__}", f"[{style}] constructing the Sim raised {type(e).__name__}: {str(e)[:140]}", case=case, style=style)
            continue
        try:
            inp = hs.to_proto(sim)
        except Exception as e:
            kinds = sorted({a["k"] + (":" + a["targ"][0] if a["k"] == "save" else "") for a in spec["attrs"]})
            saves = [a["targ"][0] for a in spec["attrs"] if a["k"] == "save"]
            rec.violation(f"sim-export-raises:{type(e).__name__}", f"[{style}] to_proto raised {type(e).__name__}: {str(e)[:120]} (attribute kinds {kinds})",
                          case=case, style=style, save_forms=",".join(sorted(set(saves))))
            continue
        compare(rec, f"sim #{k}", spec, style, keys, inp, qualname(tb), case)


def lists(rec, rng, k):
    import hdl21.sim as hs
    from hdl21.qualname import qualname

    specs = [rspec(rng) for _ in range(rng.randint(2, 3))]
    shared = rng.random() < 0.5
    tbs = [make_tb()] * len(specs) if shared else [make_tb() for _ in specs]
    case = {"kind": "list", "specs": specs, "shared_tb": shared}
    rec.case(key=jhash(case), nontrivial=True, sample=None)
    try:
        sims = [build_sim(s, "proc", tb)[0] for s, tb in zip(specs, tbs)]
        inps = hs.to_proto(sims)
    except Exception as e:
        rec.violation(f"sim-list-export-raises:{type(e).__name__}", f"to_proto(list of {len(specs)} Sims, shared tb={shared}) raised {str(e)[:120]}", case=case)
        return
    rec.count("lists.compared")
    if len(inps) != len(sims):
        rec.violation("sim-list-length", f"{len(sims)} Sims exported as {len(inps)} SimInputs", case=case)
        return
    for s, tb, inp in zip(specs, tbs, inps):
        compare(rec, f"list #{k}", s, "proc", None, inp, qualname(tb), case)


def reexports(rec, rng, k, spec=None):
    """Export, export again, extend the Sim, rename the testbench, share unnamed analysis objects: every export is judged against
    the Sim as it stands at that moment."""
    import copy as _copy
    import hdl21.sim as hs
    from hdl21.qualname import qualname

    spec = spec if spec is not None else rspec(rng)
    case = {"kind": "reexport", "spec": spec}
    rec.case(key=jhash(case), nontrivial=True, sample=case if k % 200 == 1 else None)
    rec.count("reexport.histories")
    try:
        tb = make_tb()
        sim, _ = build_sim(spec, "proc", tb)
        steps = []
        inp = hs.to_proto(sim)
        compare(rec, f"reexport #{k} first", spec, "proc", None, inp, qualname(tb), case)
        inp = hs.to_proto(sim)
        compare(rec, f"reexport #{k} again", spec, "proc", None, inp, qualname(tb), case)
        # grow the Sim by unnamed analyses (and one inside a sweep), then export again
        spec2 = _copy.deepcopy(spec)
        extra = [{"k": "op", "name": None}, {"k": "tran", "tstop": ["int", 1], "tstep": None, "name": None},
                 {"k": "monte", "npts": 3, "name": None, "inner": [{"k": "op", "name": None}]}]
        rng.shuffle(extra)
        params, cache = {}, {}
        for a in extra[: rng.randint(1, 3)]:
            spec2["attrs"].append(a)
            sim.add(mk_attr(a, tb, params, cache))
        inp = hs.to_proto(sim)
        compare(rec, f"reexport #{k} grown", spec2, "proc", None, inp, qualname(tb), case)
        # rename the testbench; `top` names the testbench module as it is called now
        tb.name = tb.name + "_renamed"
        inp = hs.to_proto(sim)
        compare(rec, f"reexport #{k} renamed-tb", spec2, "proc", None, inp, qualname(tb), case)
        # one unnamed analysis object shared by two Sims of a list, and used twice in one Sim
        shared = hs.Op()
        tb2 = make_tb()
        s1 = hs.Sim(tb=tb2, attrs=[shared, hs.Tran(tstop=1), hs.Ac(sweep=hs.LogSweep(start=1, stop=10, npts=2))])
        s2 = hs.Sim(tb=tb2, attrs=[hs.Tran(tstop=2), shared, hs.MonteCarlo(inner=[shared, hs.Tran(tstop=3)], npts=2)])
        for which, inps in (("list", hs.to_proto([s1, s2])), ("list-again", hs.to_proto([s2, s1]))):
            for inp in inps:
                names = all_names([dec_analysis(a) for a in inp.an])
                rec.count("reexport.shared-analysis")
                if len(set(names)) != len(names) or any(not n for n in names):
                    rec.violation("analysis-names-not-distinct", f"[reexport #{k} shared unnamed analysis, {which}] analysis names {names}", case=case,
                                  style="shared")
    except Exception as e:
        rec.violation(f"sim-reexport-raises:{type(e).__name__}", f"[reexport #{k}] raised {type(e).__name__}: {str(e)[:140]}", case=case)


def bad_tbs(rec):
    import hdl21.sim as hs

    for kind, must_reject in (("no-port", True), ("two-ports", True), ("bus-port", True), ("scalar+bus", True), ("scalar+two-buses", True), ("bundle-port", True), ("only-bundle-port", True), ("ok", False)):
        rec.count("bad-tb.probed")
        case = {"kind": "tb", "tb": kind}
        rec.case(key=f"tb:{kind}", nontrivial=True, sample=case)
        # the interface predicate itself, asked before and after elaboration: the verdict is the same, and is the stated one
        for when in ("before-elaboration", "after-elaboration"):
            tb = make_tb(kind)
            try:
                if when == "after-elaboration":
                    import hdl21 as h

                    h.elaborate(tb)
                verdict = hs.is_tb(tb)
            except Exception:
                continue
            rec.count("bad-tb.is_tb-asked")
            if bool(verdict) == must_reject:
                rec.violation("is_tb-verdict-wrong", f"is_tb says {verdict} for a module with {kind} ({when}); exactly one scalar port is the interface", case=case, tb=kind, when=when)
        for style in ("proc", "list", "class", "proc-elaborated-before", "class-elaborated-before"):
            tb = make_tb(kind)
            try:
                if style.endswith("elaborated-before"):
                    import hdl21 as h

                    try:
                        h.elaborate(tb)  # the verdict must not depend on whether the testbench was elaborated before
                    except Exception:
                        continue
                if style.startswith("class"):
                    s = hs.sim(type(f"SimTb{next(_uid)}", (), {"tb": tb, "op": hs.Op()}))
                else:
                    s = hs.Sim(tb=tb, attrs=[hs.Op()])
                hs.to_proto([s] if style == "list" else s)
                if must_reject:
                    rec.violation("bad-testbench-accepted", f"a testbench with {kind} (not exactly one scalar port) was exported ({style})", case=case, tb=kind)
            except Exception as e:
                if must_reject is False:
                    rec.violation("good-testbench-rejected", f"a valid testbench was rejected ({style}): {str(e)[:100]}", case=case)


def target_probes(rec):
    """Targets given as hardware objects are exported as the names those objects have in the exported testbench:
    a Diff whose nets bundle flattening had to re-name, and objects which have no name there at all (unnamed, or of another
    module, or a bundle inside a pair) - the latter are refused, or else named truthfully."""
    import hdl21 as h
    import hdl21.sim as hs

    K = 1000

    def nets_of(inp):
        tbm = [m for m in inp.pkg.modules if m.name == inp.top][0]
        conn = {}
        for i in tbm.instances:
            for c in i.connections:
                conn[(i.name, c.portname)] = c.target.sig if c.target.WhichOneof("stype") == "sig" else None
        return {sg.name for sg in tbm.signals}, {i.name for i in tbm.instances}, conn

    # 1. the Diff's nets re-named by flattening, because something else has the default name
    for taker in ("signal", "instance", "bundle", "none"):
        for side in ("p", "n"):
            t = hs.tb(f"NoiseDiffTb{next(_uid)}")
            t.x = h.Signal()
            if taker == "signal":
                t.add(h.Signal(), name=f"d_{side}")
                t.add(h.R(r=1 * K)(p=t.get(f"d_{side}"), n=t.VSS), name="rx")
            elif taker == "instance":
                t.add(h.R(r=1 * K)(p=t.x, n=t.VSS), name=f"d_{side}")
            elif taker == "bundle":
                b = h.Bundle(name=f"Pn{next(_uid)}")
                b.add(h.Signal(), name=side)
                t.add(h.BundleInstance(of=b), name="d_")  # (flattens to d__p / d__n: no clash, a near miss)
                t.add(h.R(r=1 * K)(p=getattr(t.d_, side), n=t.VSS), name="rx")
            t.d = h.Diff()
            t.v = h.Vdc(dc=1)(p=t.x, n=t.VSS)
            t.rp = h.R(r=1 * K)(p=t.d.p, n=t.VSS)
            t.rn = h.R(r=1 * K)(p=t.d.n, n=t.VSS)
            case = {"kind": "target", "probe": f"diff-renamed:{taker}:{side}"}
            rec.case(key=f"target:diff:{taker}:{side}", nontrivial=True, sample=case)
            rec.count("targets.diff-probed")
            try:
                inp = hs.to_proto(hs.Sim(tb=t, attrs=[hs.Noise(output=t.d, input_source=t.v, sweep=hs.LogSweep(1, 10, 1))]))
            except Exception as e:
                rec.violation("diff-output-rejected", f"a Diff of the testbench given as Noise output was rejected ({taker} named d_{side}): {str(e)[:100]}", case=case)
                continue
            _, _, conn = nets_of(inp)
            got = (inp.an[0].noise.output_p, inp.an[0].noise.output_n)
            want = (conn[("rp", "p")], conn[("rn", "p")])
            rec.count("targets.diff-compared")
            if got != want:
                rec.violation("noise-diff-output-not-the-flattened-nets", f"Noise(output=<Diff d>) with a {taker} named d_{side} in the testbench: exported {got}, the Diff's nets are {want}", case=case, taker=taker)

    # 2. objects which are not named members of the testbench
    def base():
        t = hs.tb(f"TargTb{next(_uid)}")
        t.a = h.Signal()
        t.v = h.Vdc(dc=1)(p=t.a, n=t.VSS)
        t.r = h.R(r=1 * K)(p=t.a, n=t.VSS)
        dut = h.Module(name=f"TargDut{next(_uid)}")
        dut.a, dut.q = h.Port(), h.Signal()
        dut.r = h.R(r=1 * K)(p=dut.a, n=dut.q)
        dut.r2 = h.R(r=1 * K)(p=dut.q, n=dut.a)
        t.dut = dut(a=t.a)
        tri = h.Bundle(name=f"Trio{next(_uid)}")
        tri.add(h.Signal(), name="x")
        tri.add(h.Signal(), name="y")
        t.b = h.BundleInstance(of=tri)
        t.rb = h.R(r=1 * K)(p=t.b.x, n=t.b.y)
        return t, dut

    sw = lambda: hs.LogSweep(1, 10, 1)

    def _displaced(t):
        old_sig = t.a
        t.zz = h.Signal()
        gone = t.zz
        t.zz = h.R(r=1 * K)(p=t.a, n=t.VSS)  # (the name now belongs to an instance; the signal is nobody's)
        return gone

    def _loose():
        i = h.Vdc(dc=1)()
        i.name = "vloose"
        return i

    probes = {
        "save-unnamed-signal": lambda t, d: hs.Save(h.Signal()),
        "save-list-with-unnamed-signal": lambda t, d: hs.Save([t.a, h.Signal()]),
        "save-signal-of-dut": lambda t, d: hs.Save(d.q),
        "save-port-of-dut-same-name": lambda t, d: hs.Save(d.a),
        "save-list-with-signal-of-dut": lambda t, d: hs.Save([t.a, d.q]),
        "noise-unnamed-diff": lambda t, d: hs.Noise(output=h.Diff(), input_source=t.v, sweep=sw()),
        "noise-unnamed-signal": lambda t, d: hs.Noise(output=h.Signal(), input_source=t.v, sweep=sw()),
        "noise-signal-of-dut": lambda t, d: hs.Noise(output=d.q, input_source=t.v, sweep=sw()),
        "noise-pair-with-signal-of-dut": lambda t, d: hs.Noise(output=(t.a, d.q), input_source=t.v, sweep=sw()),
        "noise-pair-with-bundle": lambda t, d: hs.Noise(output=(t.b, t.a), input_source=t.v, sweep=sw()),
        "noise-pair-with-unnamed-signal": lambda t, d: hs.Noise(output=(t.a, h.Signal()), input_source=t.v, sweep=sw()),
        "noise-unnamed-source": lambda t, d: hs.Noise(output=t.a, input_source=h.Vdc(dc=1)(), sweep=sw()),
        # named, but of no Module at all / of a Bundle definition / of a Primitive / displaced from the testbench
        "save-named-signal-of-no-module": lambda t, d: hs.Save(h.Signal(name="foo")),
        "save-list-with-named-signal-of-no-module": lambda t, d: hs.Save([t.a, h.Signal(name="a2")]),
        "save-member-of-bundle-definition": lambda t, d: hs.Save(h.Diff.p),
        "save-port-of-primitive": lambda t, d: hs.Save(h.R.port_list[0]),
        "save-displaced-signal": lambda t, d: hs.Save(_displaced(t)),
        "noise-named-signal-of-no-module": lambda t, d: hs.Noise(output=h.Signal(name="zz"), input_source=t.v, sweep=sw()),
        "noise-source-of-dut": lambda t, d: hs.Noise(output=t.a, input_source=d.r, sweep=sw()),
        "noise-source-named-but-never-added": lambda t, d: hs.Noise(output=t.a, input_source=_loose(), sweep=sw()),
        # empty names
        "save-empty-name": lambda t, d: hs.Save(""),
        "save-empty-list": lambda t, d: hs.Save([]),
        "save-list-with-empty-name": lambda t, d: hs.Save(["a", ""]),
        "noise-empty-output-name": lambda t, d: hs.Noise(output="", input_source=t.v, sweep=sw()),
        "noise-pair-with-empty-name": lambda t, d: hs.Noise(output=(t.a, ""), input_source=t.v, sweep=sw()),
        "noise-empty-source-name": lambda t, d: hs.Noise(output=t.a, input_source="", sweep=sw()),
        # controls: the same forms with members of the testbench are exported
        "ok-save-signal": lambda t, d: hs.Save(t.a),
        "ok-save-port": lambda t, d: hs.Save(t.VSS),
        "ok-save-list": lambda t, d: hs.Save([t.a, t.VSS]),
        "ok-noise-pair": lambda t, d: hs.Noise(output=(t.a, t.VSS), input_source=t.v, sweep=sw()),
    }
    for pname, mk in probes.items():
        for pre in (False, True):
            t, d = base()
            if pre:
                h.elaborate(t)
            case = {"kind": "target", "probe": pname, "elaborated_before": pre}
            rec.case(key=f"target:{pname}:{pre}", nontrivial=True, sample=case)
            rec.count("targets.probed")
            try:
                attr = mk(t, d)
                inp = hs.to_proto(hs.Sim(tb=t, attrs=[attr]))
            except Exception as e:
                rec.count("targets.refused")
                if pname.startswith("ok-"):
                    rec.violation("good-target-rejected", f"{pname}: a member of the testbench was rejected as a target: {str(e)[:100]}", case=case)
                continue
            rec.count("targets.exported")
            sigs, insts, _ = nets_of(inp)
            if inp.ctrls:
                sv = inp.ctrls[0].save
                names = sv.signal.split(",") if sv.WhichOneof("save") == "signal" else [""]
                srcs = []
            else:
                nz = inp.an[0].noise
                names = [nz.output_p] + ([nz.output_n] if nz.output_n or "pair" in pname else [])
                srcs = [nz.input_source]
            if pname.startswith("ok-"):
                if any(n not in sigs for n in names) or any(x not in insts for x in srcs):
                    rec.violation("target-name-wrong", f"{pname}: exported names {names} / {srcs} are not those of the testbench members given", case=case)
                continue
            # not a member of the testbench, yet exported: whatever name was written stands for something else (or nothing)
            rec.violation("target-not-of-testbench-exported", f"{pname}: a target which is not a named net / instance of the testbench was exported as {names} source {srcs}", case=case, probe=pname)


def run(ctx, rec):
    attach(rec)
    rng = ctx.rng("c17")
    n = 700 if ctx.quick else 8000
    for k in range(n):
        one(rec, rng, k)
    for k in range(n // 4):
        lists(rec, rng, k)
    for k in range(n // 5):
        reexports(rec, rng, k)
    if ctx.shard == 0:
        bad_tbs(rec)
        target_probes(rec)
    rec.exhaustive = False
    _bound["rec"] = None


def shards(ctx):
    return 16


def replay(ctx, rec, case):
    import random

    attach(rec)
    if case.get("kind") == "target":
        target_probes(rec)
        return
    if case.get("kind") == "tb":
        bad_tbs(rec)
        return
    if case.get("kind") == "reexport":
        for seed in range(6):
            reexports(rec, random.Random(seed), seed, spec=case["spec"])
        return
    import hdl21.sim as hs
    from hdl21.qualname import qualname

    specs = [case["spec"]] if case.get("kind") == "sim" else case["specs"]
    for spec in specs:
        for style in ([case["style"]] if case.get("style") else ["proc"]):
            rec.case(key=jhash([spec, style]), nontrivial=True, sample={"spec": spec, "style": style})
            tb = make_tb()
            sim, keys = build_sim(spec, style, tb)
            try:
                inp = hs.to_proto(sim)
            except Exception as e:
                rec.violation(f"sim-export-raises:{type(e).__name__}", f"[{style}] to_proto raised {type(e).__name__}: {str(e)[:120]}", case=case, style=style)
                continue
            compare(rec, "replay", spec, style, keys, inp, qualname(tb), case)
