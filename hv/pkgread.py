"""
R2 -- independent reader of a `vlsir.circuit.Package`, reading it the way every vlsirtools netlister does:
a signal is the bit list [w-1 .. 0], a slice [top .. bot], a concat its parts in listed order (first part
most significant) and a connection pairs that list positionally with the target port's own [w-1 .. 0].
Flattens to the same leaf-level partition as R1 (hv.refsem.Flat).

R4 -- `wellformed(pkg)`: the closure / self-consistency walk used by C06.

Uses the protobuf message API only; nothing from hdl21.
"""

from __future__ import annotations

from fractions import Fraction
from decimal import Decimal
from typing import Any, Dict, List, Optional, Tuple

from .refsem import UF, Flat

PRIM_PORTS = {
    ("vlsir.primitives", "resistor"): ["p", "n"],
    ("vlsir.primitives", "capacitor"): ["p", "n"],
    ("vlsir.primitives", "inductor"): ["p", "n"],
    ("vlsir.primitives", "vdc"): ["p", "n"],
    ("vlsir.primitives", "vpulse"): ["p", "n"],
    ("vlsir.primitives", "vsin"): ["p", "n"],
    ("vlsir.primitives", "isource"): ["p", "n"],
    ("vlsir.primitives", "vcvs"): ["p", "n", "cp", "cn"],
    ("vlsir.primitives", "vccs"): ["p", "n", "cp", "cn"],
    ("vlsir.primitives", "ccvs"): ["p", "n", "cp", "cn"],
    ("vlsir.primitives", "cccs"): ["p", "n", "cp", "cn"],
    ("hdl21.primitives", "Mos"): ["d", "g", "s", "b"],
    ("hdl21.primitives", "PhysicalResistor"): ["p", "n"],
    ("hdl21.primitives", "ThreeTerminalResistor"): ["p", "n", "b"],
    ("hdl21.primitives", "PhysicalCapacitor"): ["p", "n"],
    ("hdl21.primitives", "ThreeTerminalCapacitor"): ["p", "n", "b"],
    ("hdl21.primitives", "PhysicalInductor"): ["p", "n"],
    ("hdl21.primitives", "ThreeTerminalInductor"): ["p", "n", "b"],
    ("hdl21.primitives", "PhysicalShort"): ["p", "n"],
    ("hdl21.primitives", "Diode"): ["p", "n"],
    ("hdl21.primitives", "Bipolar"): ["c", "b", "e"],
}

SI_EXP = {"YOCTO": -24, "ZEPTO": -21, "ATTO": -18, "FEMTO": -15, "PICO": -12, "NANO": -9, "MICRO": -6, "MILLI": -3,
          "CENTI": -2, "DECI": -1, "UNIT": 0, "DECA": 1, "HECTO": 2, "KILO": 3, "MEGA": 6, "GIGA": 9, "TERA": 12,
          "PETA": 15, "EXA": 18, "ZETTA": 21, "YOTTA": 24}


class ReadError(Exception):
    pass


def decode_param(pv) -> Any:
    """ParamValue -> python: int | float | ('lit', str) | ('str', str) | ('pref', Fraction, expname, text)."""
    import vlsir

    which = pv.WhichOneof("value")
    if which == "int64_value":
        return int(pv.int64_value)
    if which == "double_value":
        return float(pv.double_value)
    if which == "string_value":
        return ("str", pv.string_value)
    if which == "literal":
        return ("lit", pv.literal)
    if which == "prefixed":
        p = pv.prefixed
        pname = vlsir.SIPrefix.Name(p.prefix)
        w = p.WhichOneof("number")
        if w == "int64_value":
            num, text = Fraction(int(p.int64_value)), str(int(p.int64_value))
        elif w == "string_value":
            num, text = Fraction(Decimal(p.string_value)), p.string_value
        elif w == "double_value":
            num, text = Fraction(p.double_value), repr(p.double_value)
        else:
            raise ReadError("prefixed without number")
        return ("pref", num * Fraction(10) ** SI_EXP[pname], pname, text)
    return None


def target_bits(t, sigw: Dict[str, int]) -> List[Tuple[str, int]]:
    """LSB-first bit list of a ConnectionTarget, under the netlisters' reading."""
    st = t.WhichOneof("stype")
    if st == "sig":
        if t.sig not in sigw:
            raise ReadError(f"undeclared signal {t.sig}")
        return [(t.sig, i) for i in range(sigw[t.sig])]
    if st == "slice":
        s = t.slice
        if s.signal not in sigw:
            raise ReadError(f"undeclared signal {s.signal}")
        if s.top < s.bot:
            raise ReadError(f"empty slice {s.signal}[{s.top}:{s.bot}]")
        return [(s.signal, i) for i in range(s.bot, s.top + 1)]
    if st == "concat":
        out: List[Tuple[str, int]] = []
        for part in reversed(list(t.concat.parts)):  # first listed part is the MOST significant
            out += target_bits(part, sigw)
        return out
    raise ReadError("empty connection target")


class PkgIndex:
    def __init__(self, pkg):
        self.pkg = pkg
        self.mods = {m.name: m for m in pkg.modules}
        self.exts = {(e.name.domain, e.name.name): e for e in pkg.ext_modules}

    def ref(self, inst):
        """('local', name) | ('ext', domain, name)"""
        r = inst.module
        w = r.WhichOneof("to")
        if w == "local":
            return ("local", r.local)
        if w == "external":
            return ("ext", r.external.domain, r.external.name)
        raise ReadError(f"instance {inst.name} without module reference")

    def target_ports(self, ref, inst=None) -> Optional[List[Tuple[str, int]]]:
        if ref[0] == "local":
            m = self.mods.get(ref[1])
            if m is None:
                return None
            sw = {s.name: s.width for s in m.signals}
            return [(p.signal, sw.get(p.signal, 0)) for p in m.ports]
        key = (ref[1], ref[2])
        if key in self.exts:
            e = self.exts[key]
            sw = {s.name: s.width for s in e.signals}
            return [(p.signal, sw.get(p.signal, 0)) for p in e.ports]
        if key in PRIM_PORTS:
            return [(p, 1) for p in PRIM_PORTS[key]]
        return None


def flatten(pkg, top: Optional[str] = None) -> Flat:
    """Leaf-level partition of the package below module `top` (default: the last module)."""
    ix = PkgIndex(pkg)
    if top is None:
        top = pkg.modules[-1].name
    if top not in ix.mods:
        cands = [n for n in ix.mods if n == top or n.endswith("." + top)]
        if len(cands) != 1:
            raise ReadError(f"top module {top} not in package ({list(ix.mods)[:6]}...)")
        top = cands[0]
    locs: Dict[str, Tuple[UF, Dict[str, int]]] = {}

    def local(name: str):
        if name in locs:
            return locs[name]
        m = ix.mods[name]
        sw = {s.name: s.width for s in m.signals}
        uf = UF()
        for inst in m.instances:
            ref = ix.ref(inst)
            ports = ix.target_ports(ref, inst)
            if ports is None:
                raise ReadError(f"{name}.{inst.name}: unknown target {ref}")
            pw = dict(ports)
            for c in inst.connections:
                if c.portname not in pw:
                    raise ReadError(f"{name}.{inst.name}: no port {c.portname} on {ref}")
                B = target_bits(c.target, sw)
                w = pw[c.portname]
                if len(B) != w:
                    raise ReadError(f"{name}.{inst.name}.{c.portname}: width {w} connected to {len(B)} bits")
                for i, (s, b) in enumerate(B):
                    if not (0 <= b < sw[s]):
                        raise ReadError(f"{name}.{inst.name}.{c.portname}: bit {s}[{b}] outside width {sw[s]}")
                    uf.union(("t", inst.name, c.portname, i), ("s", s, b))
        locs[name] = (uf, sw)
        return locs[name]

    g = UF()
    out = Flat()

    def walk(name: str, path: tuple):
        uf, sw = local(name)
        m = ix.mods[name]
        for inst in m.instances:
            ref = ix.ref(inst)
            ports = ix.target_ports(ref, inst)
            p2 = path + (inst.name,)
            if ref[0] == "local":
                cuf, csw = local(ref[1])
                for p, w in ports:
                    for i in range(w):
                        g.union((path, uf.find(("t", inst.name, p, i))), (p2, cuf.find(("s", p, i))))
                walk(ref[1], p2)
            else:
                if p2 in out.leaves:
                    raise ReadError(f"duplicate instance path {p2}")
                out.leaves[p2] = (ref[1], ref[2], {q.name: decode_param(q.value) for q in inst.parameters})
                for p, w in ports:
                    for i in range(w):
                        g.union(("L", p2, p, i), (path, uf.find(("t", inst.name, p, i))))

    walk(top, ())
    uf, sw = local(top)
    mt = ix.mods[top]
    out.ports = [(p.signal, sw[p.signal]) for p in mt.ports]
    for p, w in out.ports:
        for i in range(w):
            g.union(("P", p, i), ((), uf.find(("s", p, i))))
    groups: Dict[Any, set] = {}
    for node in list(g.p.keys()):
        if node[0] in ("L", "P"):
            groups.setdefault(g.find(node), set()).add(node)
    out.nets = frozenset(frozenset(s) for s in groups.values())
    return out


# ---------------------------------------------------------------------------------------------------------
# R4: well-formedness of a package on its own (C06)


def target_width(t, sw: Dict[str, int], problems: List[Tuple[str, str]], where: str) -> Optional[int]:
    st = t.WhichOneof("stype")
    if st == "sig":
        if t.sig not in sw:
            problems.append(("undeclared-signal", f"{where}: connection names undeclared signal '{t.sig}'"))
            return None
        return sw[t.sig]
    if st == "slice":
        s = t.slice
        if s.signal not in sw:
            problems.append(("undeclared-signal", f"{where}: slice of undeclared signal '{s.signal}'"))
            return None
        if s.bot < 0 or s.top >= sw[s.signal] or s.top < s.bot:
            problems.append(("slice-out-of-range", f"{where}: slice {s.signal}[{s.top}:{s.bot}] outside width {sw[s.signal]}"))
            return None
        return s.top - s.bot + 1
    if st == "concat":
        tot = 0
        if not len(t.concat.parts):
            problems.append(("empty-concat", f"{where}: empty concatenation"))
            return None
        for part in t.concat.parts:
            w = target_width(part, sw, problems, where)
            if w is None:
                return None
            tot += w
        return tot
    problems.append(("empty-target", f"{where}: connection without target"))
    return None


def wellformed(pkg) -> List[Tuple[str, str]]:
    """[(class, message)] -- empty when the package is closed and self-consistent."""
    problems: List[Tuple[str, str]] = []
    ix = PkgIndex(pkg)
    seen_mods: Dict[str, int] = {}
    exts_seen = set()
    for e in pkg.ext_modules:
        key = (e.name.domain, e.name.name)
        if key in exts_seen:
            problems.append(("dup-ext-module", f"external module {key} declared twice"))
        exts_seen.add(key)
        sw = {s.name for s in e.signals}
        for p in e.ports:
            if p.signal not in sw:
                problems.append(("port-undeclared-signal", f"ext module {key}: port '{p.signal}' names no declared signal"))
        # an external module is a module header: a name, and uniquely named ports / signals of positive width
        if not e.name.name:
            problems.append(("ext-module-unnamed", f"external module {key} has no name"))
        for what, names in (("port", [p.signal for p in e.ports]), ("signal", [s.name for s in e.signals])):
            if len(set(names)) != len(names) or "" in names:
                problems.append((f"dup-ext-{what}-name", f"ext module {key}: {what} names {names} repeat (or are empty)"))
        for s in e.signals:
            if s.width < 1:
                problems.append(("bad-width", f"ext module {key}: signal {s.name} width {s.width}"))
    defined = set()
    for m in pkg.modules:
        if m.name in defined:
            problems.append(("dup-module-name", f"module name '{m.name}' appears twice"))
        snames = [s.name for s in m.signals]
        if len(set(snames)) != len(snames):
            d = sorted({n for n in snames if snames.count(n) > 1})
            problems.append(("dup-signal-name", f"{m.name}: signal name(s) {d} declared more than once"))
        for s in m.signals:
            if s.width < 1:
                problems.append(("bad-width", f"{m.name}: signal {s.name} width {s.width}"))
        sw = {s.name: s.width for s in m.signals}
        pnames = [p.signal for p in m.ports]
        if len(set(pnames)) != len(pnames):
            problems.append(("dup-port-name", f"{m.name}: a port is listed more than once"))
        for p in m.ports:
            if p.signal not in sw:
                problems.append(("port-undeclared-signal", f"{m.name}: port '{p.signal}' names no declared signal"))
        inames = [i.name for i in m.instances]
        if len(set(inames)) != len(inames):
            d = sorted({n for n in inames if inames.count(n) > 1})
            problems.append(("dup-instance-name", f"{m.name}: instance name(s) {d} used more than once"))
        for inst in m.instances:
            where = f"{m.name}.{inst.name}"
            try:
                ref = ix.ref(inst)
            except ReadError as e:
                problems.append(("no-module-ref", str(e)))
                continue
            if ref[0] == "local":
                if ref[1] not in ix.mods:
                    problems.append(("dangling-module-ref", f"{where}: refers to module '{ref[1]}' not in the package"))
                    continue
                if ref[1] not in defined:
                    problems.append(("use-before-def", f"{where}: module '{ref[1]}' is defined after its use"))
            ports = ix.target_ports(ref, inst)
            if ports is None:
                problems.append(("unknown-target", f"{where}: target {ref[1:]} is neither in the package, a declared external "
                                                   f"module nor a known primitive"))
                continue
            pw = dict(ports)
            cnt: Dict[str, int] = {}
            for c in inst.connections:
                cnt[c.portname] = cnt.get(c.portname, 0) + 1
                if c.portname not in pw:
                    problems.append(("conn-to-missing-port", f"{where}: connection to non-existent port '{c.portname}'"))
                    continue
                w = target_width(c.target, sw, problems, f"{where}.{c.portname}")
                if w is not None and w != pw[c.portname]:
                    problems.append(("conn-width-mismatch", f"{where}.{c.portname}: port width {pw[c.portname]}, connection width {w}"))
            for p in pw:
                if cnt.get(p, 0) == 0:
                    problems.append(("port-unconnected", f"{where}: port '{p}' of {ref[1:]} is not connected"))
                elif cnt[p] > 1:
                    problems.append(("port-multiply-connected", f"{where}: port '{p}' connected {cnt[p]} times"))
        defined.add(m.name)
    return problems


# ---------------------------------------------------------------------------------------------------------
# match: R1 Flat  vs  R2 Flat


def expected_leaf(leafname: str, tag) -> Tuple[str, str, Dict[str, Any]]:
    from .refsem import LEAVES

    d = LEAVES[leafname]
    tag = int(tag or 0)
    if d["kind"] == "ext":
        return (d.get("domain", "hvlib"), d.get("extname", leafname), {"tag": tag})
    if d["kind"] == "ideal":
        key = {"R": "r", "C": "c", "VCVS": "gain"}[leafname]
        return ("vlsir.primitives", d["vname"], {key: 1000 + tag})
    return ("hdl21.primitives", d["vname"], {"nf": 1 + tag})


def param_equal(got: Any, want: int) -> bool:
    if isinstance(got, tuple) and got and got[0] == "pref":
        return got[1] == want
    return got == want


def compare(ref: Flat, obs: Flat, max_diffs: int = 6) -> List[str]:
    """Differences between the reference meaning (R1) and the observed package (R2).  Empty = identical."""
    diffs: List[str] = []
    rp, op = set(ref.leaves), set(obs.leaves)
    for p in sorted(rp - op)[:max_diffs]:
        diffs.append(f"leaf {'/'.join(p)} ({ref.leaves[p][0]}) missing from the package")
    for p in sorted(op - rp)[:max_diffs]:
        diffs.append(f"package has unexpected leaf {'/'.join(p)} ({obs.leaves[p][:2]})")
    for p in sorted(rp & op):
        dom, name, params = expected_leaf(*ref.leaves[p])
        od, on, oparams = obs.leaves[p]
        if (dom, name) != (od, on):
            diffs.append(f"leaf {'/'.join(p)}: target {od}.{on}, expected {dom}.{name}")
        for k, v in params.items():
            if k not in oparams or not param_equal(oparams[k], v):
                diffs.append(f"leaf {'/'.join(p)}: parameter {k}={oparams.get(k)!r}, expected {v}")
    if sorted(ref.ports) != sorted(obs.ports):
        diffs.append(f"top-level ports {sorted(obs.ports)}, expected {sorted(ref.ports)}")
    if diffs:
        return diffs[:max_diffs]
    if ref.nets != obs.nets:
        # explain: terminals whose nets differ
        rmap = {t: n for n in ref.nets for t in n}
        omap = {t: n for n in obs.nets for t in n}
        for t in sorted(set(rmap) | set(omap), key=str):
            if t not in omap:
                diffs.append(f"terminal {fmt_t(t)} missing from the package")
            elif t not in rmap:
                diffs.append(f"package has unexpected terminal {fmt_t(t)}")
            elif rmap[t] != omap[t]:
                extra = sorted(map(fmt_t, omap[t] - rmap[t]))
                lost = sorted(map(fmt_t, rmap[t] - omap[t]))
                diffs.append(f"net of {fmt_t(t)}: shorted to {extra[:4]}" if extra else f"net of {fmt_t(t)}: split from {lost[:4]}")
            if len(diffs) >= max_diffs:
                break
    return diffs


def fmt_t(t) -> str:
    if t[0] == "L":
        return f"{'/'.join(t[1])}.{t[2]}[{t[3]}]"
    return f"port {t[1]}[{t[2]}]"


def compare_renamed(ref: Flat, obs: Flat, cap: int = 20000, ref_is_obs: bool = False) -> Optional[List[str]]:
    """Like `compare`, but leaf instances are identified by their unique tag instead of their path, and leaves that
    share a tag (elements of one array / pair) are matched by searching a bijection that makes the partitions equal.
    Returns [] if some bijection works, a list of differences otherwise, None if the search space exceeded `cap`."""
    import itertools

    def obs_key(v):
        dom, name, params = v
        for k in ("tag", "r", "c", "gain", "nf"):
            if k in params:
                pv = params[k]
                if isinstance(pv, tuple) and pv[0] == "pref":
                    pv = int(pv[1]) if pv[1].denominator == 1 else pv[1]
                return (dom, name, k, pv)
        return (dom, name, None, None)

    def ref_key(v):
        dom, name, params = expected_leaf(*v)
        (k, pv), = params.items()
        return (dom, name, k, pv)

    gr: Dict[Any, list] = {}
    go: Dict[Any, list] = {}
    for p, v in ref.leaves.items():
        gr.setdefault(obs_key(v) if ref_is_obs else ref_key(v), []).append(p)
    for p, v in obs.leaves.items():
        go.setdefault(obs_key(v), []).append(p)
    diffs = []
    for k in sorted(set(gr) | set(go), key=str):
        a, b = len(gr.get(k, [])), len(go.get(k, []))
        if a != b:
            diffs.append(f"{a} leaf device(s) {k[1]}({k[2]}={k[3]}) in the design, {b} in the package "
                         f"(package paths {['/'.join(x) for x in go.get(k, [])][:4]})")
    if diffs:
        return diffs[:6]
    # top-level ports: a flattened bundle port may legitimately have received a fresh (underscore-suffixed) name
    pmap = {}
    rp = dict(ref.ports)
    unmatched = [n for n, w in obs.ports if n not in rp]
    for n, w in obs.ports:
        if n in rp:
            pmap[n] = n
    for n in unmatched:
        base = n.rstrip("_")
        if base in rp and base not in pmap.values():
            pmap[n] = base
    if sorted((pmap.get(n, n), w) for n, w in obs.ports) != sorted(ref.ports):
        return [f"top-level ports {sorted(obs.ports)}, expected {sorted(ref.ports)}"]
    if any(k != v for k, v in pmap.items()):
        obs_nets = frozenset(frozenset(("P", pmap.get(t[1], t[1]), t[2]) if t[0] == "P" else t for t in net) for net in obs.nets)
    else:
        obs_nets = obs.nets
    keys = sorted(gr, key=str)
    space = 1
    for k in keys:
        n = len(gr[k])
        for i in range(2, n + 1):
            space *= i
    if space > cap:
        return None
    omap_nets = obs_nets
    last = None
    for perm in itertools.product(*[itertools.permutations(sorted(go[k])) for k in keys]):
        mapping = {}
        for k, pk in zip(keys, perm):
            for a, b in zip(sorted(gr[k]), pk):
                mapping[a] = b
        renamed = frozenset(frozenset(("L", mapping[t[1]], t[2], t[3]) if t[0] == "L" else t for t in net) for net in ref.nets)
        if renamed == omap_nets:
            return []
        last = renamed
    # explain with the identity-order candidate
    rmap = {t: n for n in last for t in n}
    omap = {t: n for n in obs_nets for t in n}
    for t in sorted(set(rmap) | set(omap), key=str):
        if t not in omap or t not in rmap:
            diffs.append(f"terminal {fmt_t(t)} present on one side only")
        elif rmap[t] != omap[t]:
            extra = sorted(map(fmt_t, omap[t] - rmap[t]))
            lost = sorted(map(fmt_t, rmap[t] - omap[t]))
            diffs.append(f"net of {fmt_t(t)}: shorted to {extra[:4]}" if extra else f"net of {fmt_t(t)}: split from {lost[:4]}")
        if len(diffs) >= 5:
            break
    return diffs or ["partitions differ"]
