"""
R1 -- reference semantics of a DesignSpec.  Never imports Hdl21.

A design is plain JSON-able data:

  design = {
    "bundles": { bname: {"sigs": [[name, width, kind], ...],       kind: "sig" | "in" | "out" | "inout" | "port"
                                                                          | ["role", src|None, dest|None]
                         "subs": [[name, bundle, flipped], ...],
                         "roles": [rolename, ...] | None } },
    "modules": [ { "name": str, "style": "proc"|"class"|"gen",
                   "ports":  [[name, width, dir], ...],            dir: "in"|"out"|"inout"|"none"
                   "bports": [[name, bundle, flipped, role], ...], bundle-valued ports
                   "sigs":   [[name, width], ...],
                   "buns":   [[name, bundle], ...],                internal bundle instances
                   "insts":  [ {"name": str, "kind": "single"|"array"|"pair", "n": int,
                                "of": ["mod", name] | ["leaf", leafname], "tag": int|None,
                                "conns": {port: expr}} ] } ... ],  children before parents
    "top": modulename }

  expr :=  ["sig", name] | ["slice", expr, index] | ["cat", expr, ...] | ["pref", inst, port]
         | ["nc", id, name|None] | ["bun", name] | ["bref", bundleinst, [path...]] | ["anon", {member: expr}]
  index := int | [start|None, stop|None, step|None]

Semantics: per module a union-find over bit nodes; `bits(e)` is the LSB-first node list (Slice = Python list
slicing, Concat = list concatenation with the first part lowest, PortRef(i,p) = the terminal bits of i.p).
Hierarchy is inlined to leaf level: the result is a partition of leaf-terminal bits and top-level port bits.
"""

from __future__ import annotations

from typing import Any, Dict, List, Optional, Tuple

# ---------------------------------------------------------------------------------------------------------
# leaf library (mirrored by hv.build.leaf_objects)
LEAVES: Dict[str, dict] = {
    "E1": {"kind": "ext", "ports": [("a", 1), ("b", 1)]},
    "E2": {"kind": "ext", "ports": [("x", 2), ("y", 1)]},
    "E3": {"kind": "ext", "ports": [("p", 3), ("q", 3), ("r", 1)]},
    "E4": {"kind": "ext", "ports": [("w", 4), ("v", 2)]},
    "E5": {"kind": "ext", "ports": [("z", 1)]},
    "R": {"kind": "ideal", "ports": [("p", 1), ("n", 1)], "vname": "resistor"},
    "C": {"kind": "ideal", "ports": [("p", 1), ("n", 1)], "vname": "capacitor"},
    "VCVS": {"kind": "ideal", "ports": [("p", 1), ("n", 1), ("cp", 1), ("cn", 1)], "vname": "vcvs"},
    "MOS": {"kind": "phys", "ports": [("d", 1), ("g", 1), ("s", 1), ("b", 1)], "vname": "Mos"},
}


class Invalid(Exception):
    """The design is ill-formed; .cls names the fault class."""

    def __init__(self, cls: str, msg: str):
        super().__init__(f"{cls}: {msg}")
        self.cls = cls


class UF:
    def __init__(self):
        self.p: Dict[Any, Any] = {}

    def find(self, x):
        p = self.p
        if x not in p:
            p[x] = x
            return x
        r = x
        while p[r] != r:
            r = p[r]
        while p[x] != r:
            p[x], x = r, p[x]
        return r

    def union(self, a, b):
        ra, rb = self.find(a), self.find(b)
        if ra != rb:
            self.p[ra] = rb


# ---------------------------------------------------------------------------------------------------------
# bundles


def bundle_leaves(design: dict, bname: str) -> List[Tuple[Tuple[str, ...], int]]:
    """[(path, width)] of all leaf signals of a bundle definition, own signals first then sub-bundles."""
    b = design["bundles"].get(bname)
    if b is None:
        raise Invalid("unknown-name", f"bundle {bname}")
    out = [((s[0],), s[1]) for s in b["sigs"]]
    for sub in b["subs"]:
        for p, w in bundle_leaves(design, sub[1]):
            out.append(((sub[0],) + p, w))
    return out


def bundle_lookup(design: dict, bname: str, path: List[str]):
    """Resolve a member path inside a bundle definition: ('leaf', width) or ('bundle', bname)."""
    cur = bname
    for k, seg in enumerate(path):
        b = design["bundles"][cur]
        sig = next((s for s in b["sigs"] if s[0] == seg), None)
        if sig is not None:
            if k != len(path) - 1:
                raise Invalid("missing-member", f"path {path} descends into signal {seg}")
            return ("leaf", sig[1])
        sub = next((s for s in b["subs"] if s[0] == seg), None)
        if sub is None:
            raise Invalid("missing-member", f"bundle {cur} has no member {seg}")
        cur = sub[1]
    return ("bundle", cur)


def flatname(*segs: str) -> str:
    return "_".join(segs)


def portkey(port: str, *path: str) -> str:
    """Unambiguous internal key of a bundle-port leaf (the flattened *name* may be ambiguous: member `a_b` vs `a`.`b`)."""
    return "\x1f".join((port,) + tuple(path)) if path else port


def keyname(key: str) -> str:
    """The documented flattened name of a port key."""
    return key.replace("\x1f", "_")


# ---------------------------------------------------------------------------------------------------------
# module interfaces


def get_module(design: dict, name: str) -> dict:
    for m in design["modules"]:
        if m["name"] == name:
            return m
    raise Invalid("unknown-name", f"module {name}")


def iface(design: dict, of) -> Tuple[Dict[str, int], Dict[str, str]]:
    """(scalar ports {name: width}, bundle ports {name: bundle}) of an instance target."""
    if of[0] == "leaf":
        return dict(LEAVES[of[1]]["ports"]), {}
    m = get_module(design, of[1])
    return {p[0]: p[1] for p in m["ports"]}, {bp[0]: bp[1] for bp in m.get("bports", [])}


def flat_ports(design: dict, m: dict) -> List[Tuple[str, int]]:
    """Flattened scalar ports of a module: its scalar ports, then the leaves of its bundle ports."""
    out = [(p[0], p[1]) for p in m["ports"]]
    for bp in m.get("bports", []):
        for path, w in bundle_leaves(design, bp[1]):
            out.append((portkey(bp[0], *path), w))
    return out


ELEM_SEP = "_"  # set to "#" (never part of a designer name) when designer names may equal invented ones (C05)


def elems(inst: dict) -> List[str]:
    k = inst.get("kind", "single")
    if k == "single":
        return [inst["name"]]
    if k == "array":
        return [f"{inst['name']}{ELEM_SEP}{i}" for i in range(inst["n"])]
    if k == "pair":
        return [f"{inst['name']}{ELEM_SEP}p", f"{inst['name']}{ELEM_SEP}n"]
    raise ValueError(k)


# ---------------------------------------------------------------------------------------------------------
# per-module local semantics


def wleaf(k: int) -> str:
    """Leaf cell with a single port `p` of width k (registered on demand)."""
    name = f"W{k}"
    if name not in LEAVES:
        LEAVES[name] = {"kind": "ext", "ports": [("p", k)]}
    return name


def py_index(bits: list, index, strict: bool = True):
    """Python sequence semantics for an int index or a [start, stop, step] triple.
    strict: also reject explicit slice bounds beyond [-w, w] (the library may reject those)."""
    if isinstance(index, int):
        if not (-len(bits) <= index < len(bits)):
            raise Invalid("index-out-of-range", f"index {index} into width {len(bits)}")
        return [bits[index]]
    start, stop, step = index
    if step == 0:
        raise Invalid("index-out-of-range", "zero step")
    for b in (start, stop):
        if strict and b is not None and not (-len(bits) <= b <= len(bits)):
            raise Invalid("index-out-of-range", f"bound {b} beyond [-w, w] of width {len(bits)}")
    sel = bits[slice(start, stop, step)]
    if not sel:
        raise Invalid("index-empty", f"slice {index} of width {len(bits)} selects nothing")
    return sel


class Local:
    """Union-find over the bit nodes of one module."""

    def __init__(self, design: dict, m: dict):
        self.design = design
        if m.get("pre_conns"):
            # connections made first and replaced later: only the last connection of a port counts, so a "pre-connection" means
            # something only where the design gives the port no other connection
            m = dict(m)
            m["insts"] = [dict(i, conns=dict(i["conns"])) for i in m["insts"]]
            for iname, port, e in m["pre_conns"]:
                for i in m["insts"]:
                    if i["name"] == iname and port not in i["conns"]:
                        i["conns"][port] = e
        self.m = m
        self.uf = UF()
        self.sigw: Dict[str, int] = {}
        for p in m["ports"]:
            self.sigw[p[0]] = p[1]
        for s in m["sigs"]:
            self.sigw[s[0]] = s[1]
        self.buns: Dict[str, str] = {b[0]: b[1] for b in m.get("buns", [])}
        for bp in m.get("bports", []):
            self.buns[bp[0]] = bp[1]
        self.insts: Dict[str, dict] = {i["name"]: i for i in m["insts"]}
        self.nc_uses = 0
        self.nc_nodes: List[list] = []  # node lists of NoConn uses (must stay alone)
        self.referenced: set = set()  # (inst, port) referenced by a live PortRef
        self.terminals: List[Tuple[str, str, int, Any]] = []  # (elem, port, width, of)
        self._busy: set = set()
        self._compute()

    # -- nodes
    def t(self, elem: str, port: str, w: int) -> list:
        return [("t", elem, port, i) for i in range(w)]

    def sigbits(self, name: str) -> list:
        if name not in self.sigw:
            raise Invalid("unknown-name", f"signal {name} in module {self.m['name']}")
        return [("s", name, i) for i in range(self.sigw[name])]

    def bunmembers(self, bname: str) -> Dict[tuple, list]:
        if bname not in self.buns:
            raise Invalid("unknown-name", f"bundle instance {bname} in module {self.m['name']}")
        return {path: [("b", bname, path, i) for i in range(w)] for path, w in bundle_leaves(self.design, self.buns[bname])}

    # -- typing
    def is_bundle_expr(self, e) -> bool:
        k = e[0]
        if k in ("bun", "anon"):
            return True
        if k == "bref":
            if e[1] not in self.buns:
                raise Invalid("unknown-name", f"bundle instance {e[1]}")
            return bundle_lookup(self.design, self.buns[e[1]], e[2])[0] == "bundle"
        if k == "pref":
            inst = self.insts.get(e[1])
            if inst is None:
                raise Invalid("unknown-name", f"instance {e[1]}")
            sp, bp = iface(self.design, inst["of"])
            if e[2] in bp:
                return True
            if e[2] not in sp:
                raise Invalid("missing-port", f"{e[1]}.{e[2]}")
            return False
        return False

    # -- expressions
    def pref_bits(self, iname: str, port: str) -> list:
        inst = self.insts[iname]
        sp, _ = iface(self.design, inst["of"])
        w = sp[port]
        self.referenced.add((iname, port))
        kind = inst.get("kind", "single")
        if kind == "single":
            return self.t(iname, port, w)
        # array / pair: the reference denotes the port's whole connection
        conn = inst["conns"].get(port)
        if conn is not None and conn[0] != "nc":
            key = (iname, port)
            if key in self._busy:
                raise Invalid("unsupported", "reference cycle through an array port")
            self._busy.add(key)
            try:
                return self.bits(conn)
            finally:
                self._busy.discard(key)
        nodes = [("ap", iname, port, i) for i in range(w)]
        for el in elems(inst):
            for a, b in zip(nodes, self.t(el, port, w)):
                self.uf.union(a, b)
        return nodes

    def bits(self, e) -> list:
        k = e[0]
        if k == "sig":
            return self.sigbits(e[1])
        if k == "slice":
            return py_index(self.bits(e[1]), e[2], strict=not self.design.get("lenient_bounds", False))
        if k == "cat":
            if len(e) < 2:
                raise Invalid("index-empty", "empty concatenation")
            out = []
            for part in e[1:]:
                if part[0] == "nc":
                    raise Invalid("noconn-referenced", "no-connect inside a concatenation")
                out += self.bits(part)
            return out
        if k == "pref":
            if self.is_bundle_expr(e):
                raise Invalid("width-mismatch", "bundle-valued port reference used as a signal")
            return self.pref_bits(e[1], e[2])
        if k == "bref":
            if e[1] not in self.buns:
                raise Invalid("unknown-name", f"bundle instance {e[1]}")
            kind, x = bundle_lookup(self.design, self.buns[e[1]], e[2])
            if kind != "leaf":
                raise Invalid("width-mismatch", "sub-bundle used as a signal")
            return [("b", e[1], tuple(e[2]), i) for i in range(x)]
        raise Invalid("width-mismatch", f"{k} expression used where a signal is required")

    def members(self, e) -> Dict[tuple, list]:
        k = e[0]
        if k == "bun":
            return self.bunmembers(e[1])
        if k == "bref":
            kind, sub = bundle_lookup(self.design, self.buns[e[1]], e[2])
            pre = tuple(e[2])
            return {path: [("b", e[1], pre + path, i) for i in range(w)] for path, w in bundle_leaves(self.design, sub)}
        if k == "anon":
            out: Dict[tuple, list] = {}
            for name, sube in e[1].items():
                if sube[0] == "nc":
                    raise Invalid("noconn-referenced", "no-connect as anonymous-bundle member")
                if self.is_bundle_expr(sube):
                    for p, v in self.members(sube).items():
                        out[(name,) + p] = v
                else:
                    out[(name,)] = self.bits(sube)
            return out
        if k == "pref":
            inst = self.insts[e[1]]
            _, bp = iface(self.design, inst["of"])
            self.referenced.add((e[1], e[2]))
            if inst.get("kind", "single") != "single":
                raise Invalid("unsupported", "bundle-port reference to an array")
            return {path: self.t(e[1], portkey(e[2], *path), w) for path, w in bundle_leaves(self.design, bp[e[2]])}
        raise Invalid("width-mismatch", f"{k} is not bundle-valued")

    # -- connections
    def join(self, a: list, b: list, what: str):
        if len(a) != len(b):
            raise Invalid("width-mismatch", f"{what}: port width {len(a)} vs connection width {len(b)}")
        for x, y in zip(a, b):
            self.uf.union(x, y)

    def nc_bits(self, w: int) -> list:
        self.nc_uses += 1
        nodes = [("nc", self.nc_uses, i) for i in range(w)]
        self.nc_nodes.append(nodes)
        return nodes

    def connect_scalar(self, inst: dict, port: str, w: int, e):
        kind = inst.get("kind", "single")
        els = elems(inst)
        what = f"{self.m['name']}.{inst['name']}.{port}"
        if e[0] == "nc":
            for el in els:
                self.join(self.t(el, port, w), self.nc_bits(w), what)
            return
        if self.is_bundle_expr(e):
            if kind == "pair":
                M = self.members(e)
                if set(M.keys()) != {("p",), ("n",)}:
                    raise Invalid("missing-member", f"{what}: pair connection needs members p and n")
                self.join(self.t(els[0], port, w), M[("p",)], what)
                self.join(self.t(els[1], port, w), M[("n",)], what)
                return
            raise Invalid("width-mismatch", f"{what}: bundle connected to a signal port")
        B = self.bits(e)
        if kind == "array":
            n = inst["n"]
            if len(B) == w:
                for el in els:
                    self.join(self.t(el, port, w), B, what)
            elif len(B) == n * w:
                for k, el in enumerate(els):
                    self.join(self.t(el, port, w), B[k * w:(k + 1) * w], what)
            else:
                raise Invalid("width-mismatch", f"{what}: array of {n} x {w} connected to width {len(B)}")
            return
        for el in els:  # single, or pair with a scalar connection (parallel)
            self.join(self.t(el, port, w), B, what)

    def connect_bundle(self, inst: dict, port: str, bname: str, e):
        what = f"{self.m['name']}.{inst['name']}.{port}"
        leaves = bundle_leaves(self.design, bname)
        els = elems(inst)
        if e[0] == "nc":
            for el in els:
                for path, w in leaves:
                    self.join(self.t(el, portkey(port, *path), w), self.nc_bits(w), what)
            return
        if not self.is_bundle_expr(e):
            raise Invalid("width-mismatch", f"{what}: signal connected to a bundle port")
        M = self.members(e)
        want = {p for p, _ in leaves}
        if set(M.keys()) != want:
            missing = want - set(M.keys())
            raise Invalid("missing-member" if missing else "extra-connection",
                          f"{what}: members {sorted(M.keys())} vs {sorted(want)}")
        n = inst.get("n", 1) if inst.get("kind") == "array" else 1
        for path, w in leaves:
            B = M[path]
            if n > 1 and len(B) == n * w:
                # (arrays: a member n times as wide as the port's is wired one chunk per element, like any array connection)
                for k, el in enumerate(els):
                    self.join(self.t(el, portkey(port, *path), w), B[k * w:(k + 1) * w], f"{what}.{'.'.join(path)}")
            else:
                for el in els:
                    self.join(self.t(el, portkey(port, *path), w), B, f"{what}.{'.'.join(path)}")

    def _compute(self):
        m = self.m
        names = [p[0] for p in m["ports"]] + [s[0] for s in m["sigs"]] + [b[0] for b in m.get("buns", [])] + \
                [b[0] for b in m.get("bports", [])] + [i["name"] for i in m["insts"]]
        if len(set(names)) != len(names):
            raise Invalid("unsupported", f"duplicate attribute name in module {m['name']}")
        # make sure every signal / bundle bit exists as a node (so that floating nets are visible to the matcher)
        for inst in m["insts"]:
            sp, bp = iface(self.design, inst["of"])
            for port in inst["conns"]:
                if port not in sp and port not in bp:
                    raise Invalid("extra-connection", f"{m['name']}.{inst['name']} has no port {port}")
            for el in elems(inst):
                for p, w in sp.items():
                    self.terminals.append((el, p, w, inst))
                for p, b in bp.items():
                    for path, w in bundle_leaves(self.design, b):
                        self.terminals.append((el, portkey(p, *path), w, inst))
        for inst in m["insts"]:
            sp, bp = iface(self.design, inst["of"])
            for port, e in inst["conns"].items():
                if port in sp:
                    self.connect_scalar(inst, port, sp[port], e)
                else:
                    self.connect_bundle(inst, port, bp[port], e)
        # every port connected explicitly, or referenced by a live PortRef
        for inst in m["insts"]:
            sp, bp = iface(self.design, inst["of"])
            for port in list(sp) + list(bp):
                if port not in inst["conns"] and (inst["name"], port) not in self.referenced:
                    raise Invalid("missing-connection", f"{m['name']}.{inst['name']}.{port} is unconnected")
                e = inst["conns"].get(port)
                if e is not None and e[0] == "nc" and (inst["name"], port) in self.referenced:
                    raise Invalid("noconn-referenced", f"{m['name']}.{inst['name']}.{port} is a no-connect but referenced")
        # a no-connect net contains nothing else
        for nodes in self.nc_nodes:
            pass  # by construction: fresh nodes joined to exactly one terminal bit each


# ---------------------------------------------------------------------------------------------------------
# flattening to leaf level


class Flat:
    """leaves: {path: (leafname, tag)};  nets: frozenset of frozensets of terminals
    terminal = ("L", path, port, bit) | ("P", port, bit)"""

    def __init__(self):
        self.leaves: Dict[tuple, tuple] = {}
        self.nets: frozenset = frozenset()
        self.ports: List[Tuple[str, int]] = []

    def summary(self) -> dict:
        return {"leaves": len(self.leaves), "nets": len(self.nets),
                "multi_terminal_nets": sum(1 for n in self.nets if len(n) > 1)}


def check_acyclic(design: dict):
    names = [m["name"] for m in design["modules"]]
    if len(set(names)) != len(names):
        raise Invalid("name-clash", "two modules with one name")
    state: Dict[str, int] = {}

    def visit(n):
        if state.get(n) == 1:
            raise Invalid("circular", f"circular instantiation through {n}")
        if state.get(n) == 2:
            return
        state[n] = 1
        for i in get_module(design, n)["insts"]:
            if i["of"][0] == "mod":
                visit(i["of"][1])
        state[n] = 2

    visit(design["top"])


def flatten(design: dict, top: Optional[str] = None) -> Flat:
    """The leaf-level meaning of the design.  Raises Invalid for ill-formed designs."""
    top = top or design["top"]
    check_acyclic(design)
    locals_: Dict[str, Local] = {}

    def local(name: str) -> Local:
        if name not in locals_:
            locals_[name] = Local(design, get_module(design, name))
        return locals_[name]

    g = UF()
    out = Flat()

    def portnode(L: Local, path: tuple, pname: str, i: int):
        """Global node of a module's own (flattened) port bit."""
        m = L.m
        for p in m["ports"]:
            if p[0] == pname:
                return (path, L.uf.find(("s", pname, i)))
        for bp in m.get("bports", []):
            for lp, w in bundle_leaves(design, bp[1]):
                if portkey(bp[0], *lp) == pname:
                    return (path, L.uf.find(("b", bp[0], lp, i)))
        raise KeyError(pname)

    def walk(mname: str, path: tuple):
        L = local(mname)
        m = L.m
        for inst in m["insts"]:
            of = inst["of"]
            for el in elems(inst):
                if of[0] == "leaf":
                    out.leaves[path + (el,)] = (of[1], inst.get("tag"))
                    for p, w in LEAVES[of[1]]["ports"]:
                        for i in range(w):
                            g.union(("L", path + (el,), p, i), (path, L.uf.find(("t", el, p, i))))
                else:
                    child = local(of[1])
                    for p, w in flat_ports(design, child.m):
                        for i in range(w):
                            g.union((path, L.uf.find(("t", el, p, i))), portnode(child, path + (el,), p, i))
                    walk(of[1], path + (el,))

    walk(top, ())
    Lt = local(top)
    out.ports = [(keyname(p), w) for p, w in flat_ports(design, Lt.m)]
    for p, w in flat_ports(design, Lt.m):
        for i in range(w):
            g.union(("P", keyname(p), i), portnode(Lt, (), p, i))
    groups: Dict[Any, set] = {}
    for node in list(g.p.keys()):
        if node[0] in ("L", "P"):
            groups.setdefault(g.find(node), set()).add(node)
    out.nets = frozenset(frozenset(s) for s in groups.values())
    return out


def validate(design: dict) -> Optional[Invalid]:
    """None if every module reachable from the top is well-formed, else the first Invalid."""
    try:
        check_acyclic(design)
        seen = set()

        def visit(n):
            if n in seen:
                return
            seen.add(n)
            m = get_module(design, n)
            if not m["name"]:
                raise Invalid("unnamed", "unnamed module")
            Local(design, m)
            for i in m["insts"]:
                if i["of"][0] == "mod":
                    visit(i["of"][1])

        visit(design["top"])
        return None
    except Invalid as e:
        return e
