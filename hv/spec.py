"""
DesignSpec generators: an exhaustive "kernel" family of connection-expression shapes, hand-parameterised
structural kernels (port-reference chains / fans / cycles, no-connects, bundles, arrays, pairs) and seeded
random hierarchies.  All designs are plain data (see hv.refsem) and valid by construction; hv.refsem.validate
is the judge.
"""

from __future__ import annotations

import copy
import itertools
from typing import Any, Dict, Iterator, List, Optional, Tuple

from . import refsem

# ---------------------------------------------------------------------------------------------------------
# fixed bundle definitions

BUNDLES: Dict[str, dict] = {
    "B1": {"sigs": [["x", 1, "sig"], ["y", 2, "sig"]], "subs": [], "roles": None},
    "B2": {"sigs": [["i", 1, "in"], ["o", 2, "out"]], "subs": [], "roles": None},
    "B3": {"sigs": [["z", 1, "sig"]], "subs": [["lo", "B1", False], ["hi", "B1", False]], "roles": None},
    "B4": {"sigs": [["c", 3, "inout"]], "subs": [["f", "B2", True], ["g", "B2", False]], "roles": None},
    "B5": {"sigs": [["tx", 1, ["role", "HOST", "DEV"]], ["rx", 2, ["role", "DEV", "HOST"]]], "subs": [], "roles": ["HOST", "DEV"]},
    "B7": {"sigs": [["b", 1, "sig"], ["c", 2, "sig"]], "subs": [], "roles": None},
    # ambiguous flattened names: member `a_b` vs sub-bundle `a` with member `b`
    "B6": {"sigs": [["a_b", 1, "sig"]], "subs": [["a", "B7", False]], "roles": None},
    "Diff": {"sigs": [["p", 1, ["role", "SOURCE", "SINK"]], ["n", 1, ["role", "SOURCE", "SINK"]]], "subs": [],
             "roles": ["SOURCE", "SINK"], "builtin": "Diff"},
    # members of equal widths (a connection that pairs them wrongly is still width-correct), some below a sub-bundle
    "B8": {"sigs": [["u", 2, "sig"], ["v", 2, "sig"], ["w", 2, "sig"]], "subs": [], "roles": None},
    "B9": {"sigs": [["t", 1, "sig"]], "subs": [["d", "Diff", False]], "roles": None},
    # other definitions of the SAME structure as B1 / B3 (two libraries each defining "the" bus): compatible for connection
    "B1t": {"sigs": [["x", 1, "sig"], ["y", 2, "sig"]], "subs": [], "roles": None},
    "B3t": {"sigs": [["z", 1, "sig"]], "subs": [["lo", "B1t", False], ["hi", "B1", False]], "roles": None},
}


def features(design: dict) -> List[str]:
    """Feature classes a design exercises (for the evidence histogram)."""
    f = set()

    def walk(e, depth=0):
        k = e[0]
        f.add(k)
        if k == "slice":
            idx = e[2]
            if not isinstance(idx, int) and idx[2] not in (None, 1):
                f.add("slice-step")
            if e[1][0] != "sig":
                f.add("slice-of-" + e[1][0])
            walk(e[1], depth + 1)
        elif k == "cat":
            for p in e[1:]:
                if p[0] != "sig":
                    f.add("cat-of-" + p[0])
                walk(p, depth + 1)
        elif k == "anon":
            for p in e[1].values():
                walk(p, depth + 1)
            if e[2:] and e[2] == "dict":
                f.add("anon-dict")
        elif k == "nc" and len(e) > 2 and e[2]:
            f.add("nc-named")

    for m in design["modules"]:
        f.add("style-" + m.get("style", "proc"))
        if m.get("bports"):
            f.add("bundle-port")
        for i in m["insts"]:
            f.add("inst-" + i.get("kind", "single"))
            f.add("of-" + i["of"][0])
            for e in i["conns"].values():
                walk(e)
            sp, bp = refsem.iface(design, i["of"])
            for p in list(sp) + list(bp):
                if p not in i["conns"]:
                    f.add("port-implicit")
    if len(design["modules"]) > 2:
        f.add("depth>=3")
    return sorted(f)


def nontrivial(design: dict, flat: refsem.Flat) -> bool:
    fs = features(design)
    return (len(flat.leaves) >= 2 and any(len(n) >= 2 for n in flat.nets)
            and any(k in fs for k in ("slice", "cat", "pref", "nc", "bun", "bref", "anon", "inst-array", "inst-pair")))


# ---------------------------------------------------------------------------------------------------------
# kernel family: one leaf port of width w connected by every expression shape


def leaf_for_width(w: int) -> Tuple[str, str, Dict[str, int]]:
    """(leafname, port, other ports) with a port of exactly width w."""
    return {1: ("E2", "y", {"x": 2}), 2: ("E2", "x", {"y": 1}), 3: ("E3", "p", {"q": 3, "r": 1}),
            4: ("E4", "w", {"v": 2})}[w]


ENV_SIGS = [["s1", 1], ["s2", 2], ["s3", 3], ["s4", 4], ["t1", 1], ["t2", 2], ["t3", 3]]


def atoms(w: int, tier: int) -> List[Any]:
    """Depth-1 expressions of width w over the kernel environment."""
    out: List[Any] = []
    for n, sw in ENV_SIGS:
        if sw == w:
            out.append(["sig", n])
    for n, W in ENV_SIGS:
        if W > w and n.startswith("s"):
            if w == 1:
                for i in sorted({0, W - 1, -1, -W}):
                    out.append(["slice", ["sig", n], i])
            out.append(["slice", ["sig", n], [0, w, None]])
            out.append(["slice", ["sig", n], [W - w, None, None]])
            out.append(["slice", ["sig", n], [-w, None, None]])
            if W - w >= 2:
                out.append(["slice", ["sig", n], [1, 1 + w, None]])
            if tier >= 2:
                out.append(["slice", ["sig", n], [None, w, 1]])
                out.append(["slice", ["sig", n], [-W, w - W if w - W != 0 else None, None]])
    # bundle-reference leaves
    if w == 1:
        out.append(["bref", "bb", ["x"]])
        out.append(["bref", "b3", ["lo", "x"]])
    if w == 2:
        out.append(["bref", "bb", ["y"]])
        out.append(["bref", "b3", ["hi", "y"]])
    # port references to the helper instance `u` (E3: p3 q3 r1) / `v` (E2: x2 y1)
    if w == 3:
        out.append(["pref", "u", "q"])
    if w == 1:
        out.append(["pref", "u", "r"])
    if w == 2:
        out.append(["pref", "v", "x"])
    return out


def sized(e, w):
    return (e, w)


def exprs_of_width(w: int, depth: int, tier: int) -> List[Any]:
    """All expression shapes of width w and nesting depth <= depth."""
    if depth <= 1:
        return atoms(w, tier)
    out = list(atoms(w, tier))
    sub = {k: exprs_of_width(k, depth - 1, tier) for k in range(1, 5)}
    lim = 6 if tier == 1 else 14
    # slices of anything wider
    for W in range(w + 1, 5):
        for inner in sub[W][:lim]:
            if w == 1:
                out.append(["slice", inner, 0])
                out.append(["slice", inner, -1])
            out.append(["slice", inner, [0, w, None]])
            out.append(["slice", inner, [W - w, None, None]])
    # concatenations of two and three parts
    for a in range(1, w):
        for x in sub[a][:lim]:
            for y in sub[w - a][:lim]:
                out.append(["cat", x, y])
    if w >= 3:
        for a, b in itertools.product(range(1, w), repeat=2):
            c = w - a - b
            if c >= 1:
                for x, y, z in itertools.islice(itertools.product(sub[a][:3], sub[b][:3], sub[c][:3]), 12):
                    out.append(["cat", x, y, z])
    # single-part concat
    for x in sub[w][:4]:
        out.append(["cat", x])
    return out


def kernel_design(w: int, e, upstate: str = "sig") -> dict:
    """Top module with: leaf `d` whose width-w port is tied to expression e; helper instances u (E3), v (E2)
    whose ports are in state `upstate` (how the ports that `e` may reference are themselves connected)."""
    leaf, port, others = leaf_for_width(w)
    conns_d = {port: e}
    sigs = [list(s) for s in ENV_SIGS] + [["o1", 1], ["o2", 2], ["o3", 3], ["o4", 4]]
    for p, pw in others.items():
        conns_d[p] = ["sig", f"o{pw}"]
    used = str(e)
    u_conns: Dict[str, Any] = {"p": ["sig", "o3"]}
    v_conns: Dict[str, Any] = {"y": ["sig", "o1"]}
    # states of the referenced ports u.q (3), u.r (1), v.x (2)
    if upstate == "sig":
        u_conns.update({"q": ["sig", "t3"], "r": ["sig", "t1"]})
        v_conns.update({"x": ["sig", "t2"]})
    elif upstate == "none":  # unconnected: only legal when referenced
        if '"u", "q"' not in used.replace("'", '"'):
            u_conns["q"] = ["sig", "t3"]
        if '"u", "r"' not in used.replace("'", '"'):
            u_conns["r"] = ["sig", "t1"]
        if '"v", "x"' not in used.replace("'", '"'):
            v_conns["x"] = ["sig", "t2"]
    elif upstate == "slice":
        u_conns.update({"q": ["slice", ["sig", "s4"], [1, 4, None]], "r": ["slice", ["sig", "s4"], 0]})
        v_conns.update({"x": ["slice", ["sig", "s3"], [1, 3, None]]})
    elif upstate == "cat":
        u_conns.update({"q": ["cat", ["sig", "t1"], ["sig", "t2"]], "r": ["cat", ["sig", "t1"]]})
        v_conns.update({"x": ["cat", ["sig", "s1"], ["sig", "t1"]]})
    elif upstate == "pref":  # tied to another port reference
        u_conns.update({"q": ["pref", "u2", "p"], "r": ["pref", "v2", "y"]})
        v_conns.update({"x": ["pref", "v2", "x"]})
    insts = [
        {"name": "d", "kind": "single", "of": ["leaf", leaf], "tag": 1, "conns": conns_d},
        {"name": "u", "kind": "single", "of": ["leaf", "E3"], "tag": 2, "conns": u_conns},
        {"name": "v", "kind": "single", "of": ["leaf", "E2"], "tag": 3, "conns": v_conns},
    ]
    if upstate == "pref":
        insts.append({"name": "u2", "kind": "single", "of": ["leaf", "E3"], "tag": 4,
                      "conns": {"q": ["sig", "o3"], "r": ["sig", "o1"]}})
        insts.append({"name": "v2", "kind": "single", "of": ["leaf", "E2"], "tag": 5, "conns": {}})
    # extra observers so that every environment signal bit reaches a leaf terminal
    insts.append({"name": "w4", "kind": "single", "of": ["leaf", "E4"], "tag": 6, "conns": {"w": ["sig", "s4"], "v": ["sig", "s2"]}})
    insts.append({"name": "w3", "kind": "single", "of": ["leaf", "E3"], "tag": 7,
                  "conns": {"p": ["sig", "s3"], "q": ["sig", "t3"] if upstate != "none" else ["sig", "o3"], "r": ["sig", "s1"]}})
    insts.append({"name": "wb", "kind": "single", "of": ["leaf", "E2"], "tag": 8,
                  "conns": {"x": ["bref", "bb", ["y"]], "y": ["bref", "bb", ["x"]]}})
    insts.append({"name": "wc", "kind": "single", "of": ["leaf", "E2"], "tag": 9,
                  "conns": {"x": ["bref", "b3", ["hi", "y"]], "y": ["bref", "b3", ["lo", "x"]]}})
    top = {"name": "K", "style": "proc", "ports": [], "bports": [], "sigs": sigs,
           "buns": [["bb", "B1"], ["b3", "B3"]], "insts": insts}
    return {"bundles": copy.deepcopy(BUNDLES), "modules": [top], "top": "K"}


def kernel_designs(depth: int, tier: int) -> Iterator[Tuple[str, dict]]:
    for w in (1, 2, 3):
        for e in exprs_of_width(w, depth, tier):
            refs = str(e).count("pref")
            states = ["sig"] if not refs else ["sig", "none", "slice", "cat", "pref"]
            for st in states:
                yield (f"kernel w={w} up={st}", kernel_design(w, e, st))


# ---------------------------------------------------------------------------------------------------------
# structural kernels


def _mod(name, ports=(), bports=(), sigs=(), buns=(), insts=(), style="proc"):
    return {"name": name, "style": style, "ports": [list(p) for p in ports], "bports": [list(b) for b in bports],
            "sigs": [list(s) for s in sigs], "buns": [list(b) for b in buns], "insts": list(insts)}


def _inst(name, of, conns, tag=None, kind="single", n=1):
    d = {"name": name, "kind": kind, "of": of, "tag": tag, "conns": conns}
    if kind == "array":
        d["n"] = n
    return d


def structural_designs() -> Iterator[Tuple[str, dict]]:
    B = lambda: copy.deepcopy(BUNDLES)
    L = lambda n: ["leaf", n]
    S = lambda n: ["sig", n]

    # --- port-reference chains, fans, cycles ------------------------------------------------------
    for n in (2, 3, 4):
        for with_sig in (False, True):
            for shape in ("chain", "fan", "cycle"):
                insts = []
                for k in range(n):
                    c: Dict[str, Any] = {"b": S(f"o{k}")}
                    if shape == "chain" and k > 0:
                        c["a"] = ["pref", f"i{k - 1}", "a"]
                    elif shape == "fan" and k > 0:
                        c["a"] = ["pref", "i0", "a"]
                    elif shape == "cycle":
                        c["a"] = ["pref", f"i{(k + 1) % n}", "a"]
                    insts.append(_inst(f"i{k}", L("E1"), c, tag=k))
                if with_sig:
                    if shape == "cycle":
                        insts.append(_inst("x", L("E1"), {"a": ["pref", "i0", "a"], "b": S("g")}, tag=50))
                        insts.append(_inst("y", L("E5"), {"z": S("g")}, tag=51))
                    else:
                        insts[0]["conns"]["a"] = S("g")
                        insts.append(_inst("y", L("E5"), {"z": S("g")}, tag=51))
                sigs = [[f"o{k}", 1] for k in range(n)] + [["g", 1]]
                yield (f"pref-{shape}-{n}-{'sig' if with_sig else 'nosig'}",
                       {"bundles": B(), "modules": [_mod("T", sigs=sigs, insts=insts)], "top": "T"})

    # bus-valued chains through a child module
    child = _mod("Ch", ports=[["a", 3, "in"], ["b", 1, "out"]],
                 insts=[_inst("e", L("E3"), {"p": S("a"), "q": S("a"), "r": S("b")}, tag=1)])
    for variant in range(4):
        i0 = {"b": S("o0")}
        i1 = {"a": ["pref", "i0", "a"], "b": S("o1")}
        if variant == 1:
            i0["a"] = S("bus")
        elif variant == 2:
            i0["a"] = ["slice", S("wide"), [1, 4, None]]
        elif variant == 3:
            i0["a"] = ["cat", S("o0"), S("o1"), S("g")]
        top = _mod("T", sigs=[["o0", 1], ["o1", 1], ["bus", 3], ["wide", 5], ["g", 1]],
                   insts=[_inst("i0", ["mod", "Ch"], i0), _inst("i1", ["mod", "Ch"], i1),
                          _inst("ob", L("E3"), {"p": S("bus"), "q": ["slice", S("wide"), [0, 3, None]], "r": S("g")}, tag=9),
                          _inst("ow", L("E4"), {"w": ["slice", S("wide"), [1, 5, None]], "v": ["slice", S("wide"), [3, 5, None]]}, tag=10)])
        yield (f"pref-bus-child-{variant}", {"bundles": B(), "modules": [copy.deepcopy(child), top], "top": "T"})

    # --- no-connects --------------------------------------------------------------------------------
    for variant in ("fresh", "shared", "named", "two-named", "shared-named", "bus", "bundle-port"):
        insts = []
        mods = []
        if variant == "bundle-port":
            mods.append(_mod("Cb", bports=[["bp", "B1", False, None]],
                             insts=[_inst("e", L("E2"), {"x": ["bref", "bp", ["y"]], "y": ["bref", "bp", ["x"]]}, tag=1)]))
            insts = [_inst("c0", ["mod", "Cb"], {"bp": ["nc", 1, None]}), _inst("c1", ["mod", "Cb"], {"bp": ["bun", "bb"]}),
                     _inst("c2", ["mod", "Cb"], {"bp": ["bun", "bb"]})]
            top = _mod("T", buns=[["bb", "B1"]], insts=insts)
        else:
            for k in range(3):
                nc = {"fresh": ["nc", k, None], "shared": ["nc", 0, None], "named": ["nc", k, f"open{k}"],
                      "two-named": ["nc", k, "open" if k < 2 else None], "shared-named": ["nc", 0, "opn"], "bus": ["nc", k, None]}[variant]
                if variant == "bus":
                    insts.append(_inst(f"i{k}", L("E3"), {"p": nc, "q": S("bus"), "r": S("g")}, tag=k))
                else:
                    insts.append(_inst(f"i{k}", L("E1"), {"a": nc, "b": S("g")}, tag=k))
            top = _mod("T", sigs=[["g", 1], ["bus", 3]], insts=insts)
        yield (f"noconn-{variant}", {"bundles": B(), "modules": mods + [top], "top": "T"})

    # --- bundles ------------------------------------------------------------------------------------
    for bname in ("B1", "B2", "B3", "B4", "B5", "B6", "B8", "B9"):
        leaves = refsem.bundle_leaves({"bundles": BUNDLES}, bname)
        # a child exposing the bundle as a port and tying every leaf to a leaf device
        cin = []
        for k, (path, w) in enumerate(leaves):
            leaf, port, others = leaf_for_width(w)
            c = {port: ["bref", "bp", list(path)]}
            for p, pw in others.items():
                c[p] = S(f"k{pw}")
            cin.append(_inst(f"e{k}", L(leaf), c, tag=10 + k))
        for flipped in (False, True):
            role = "HOST" if bname == "B5" else None
            ch = _mod("Cb", ports=[["k1", 1, "none"], ["k2", 2, "none"], ["k3", 3, "none"]],
                      bports=[["bp", bname, flipped, role]], insts=copy.deepcopy(cin))
            for form in ("inst", "anon", "anon-dict", "pref", "bref-sub", "nested-anon", "port-pass"):
                tops_insts = []
                buns = [["bb", bname], ["b2", bname]]
                sigs = [["k1", 1], ["k2", 2], ["k3", 3], ["q1", 1], ["q2", 2], ["q3", 3]]
                kc = {"k1": S("k1"), "k2": S("k2"), "k3": S("k3")}
                if form == "inst":
                    c0 = {"bp": ["bun", "bb"]}
                    c1 = {"bp": ["bun", "bb"]}
                elif form in ("anon", "anon-dict"):
                    mem = {}
                    for lk, (path, w) in enumerate(leaves):
                        cur = mem
                        for seg in path[:-1]:
                            cur = cur.setdefault(seg, {})
                        cur[path[-1]] = S(f"mq{lk}")  # (one signal per member: members of equal width must not be interchangeable)
                        sigs.append([f"mq{lk}", w])
                        # ... and an observer device of its own on each, or two single-terminal nets could swap unnoticed
                        oleaf, oport, oothers = leaf_for_width(w)
                        tops_insts.append(_inst(f"ob{lk}", L(oleaf), dict({oport: S(f"mq{lk}")}, **{p_: S(f"k{pw_}") for p_, pw_ in oothers.items()}), tag=40 + lk))

                    def mk(d):
                        out = {}
                        for kk, vv in d.items():
                            out[kk] = vv if isinstance(vv, list) else ["anon", mk(vv)]
                        return out

                    c0 = {"bp": ["anon", mk(mem)] + (["dict"] if form == "anon-dict" else [])}
                    c1 = {"bp": ["bun", "bb"]}
                elif form == "pref":
                    c0 = {}
                    c1 = {"bp": ["pref", "c0", "bp"]}
                elif form == "bref-sub":
                    if bname not in ("B3", "B4"):
                        continue
                    sub = BUNDLES[bname]["subs"][0]
                    subleaves = refsem.bundle_leaves({"bundles": BUNDLES}, sub[1])
                    # another child taking the sub-bundle type as a port
                    cin2 = []
                    for k, (path, w) in enumerate(subleaves):
                        leaf, port, others = leaf_for_width(w)
                        c = {port: ["bref", "sp", list(path)]}
                        for p, pw in others.items():
                            c[p] = S(f"k{pw}")
                        cin2.append(_inst(f"e{k}", L(leaf), c, tag=30 + k))
                    ch2 = _mod("Cs", ports=[["k1", 1, "none"], ["k2", 2, "none"], ["k3", 3, "none"]],
                               bports=[["sp", sub[1], False, None]], insts=cin2)
                    top = _mod("T", sigs=sigs, buns=buns,
                               insts=[_inst("c0", ["mod", "Cb"], dict(kc, bp=["bun", "bb"])),
                                      _inst("c1", ["mod", "Cs"], dict(kc, sp=["bref", "bb", [sub[0]]]))])
                    yield (f"bundle-{bname}-{'flip' if flipped else 'noflip'}-{form}",
                           {"bundles": B(), "modules": [ch, ch2, top], "top": "T"})
                    continue
                elif form == "nested-anon":
                    if bname not in ("B3", "B4"):
                        continue
                    b = BUNDLES[bname]
                    mem = {s[0]: S(f"q{s[1]}") for s in b["sigs"]}
                    mem[b["subs"][0][0]] = ["bref", "bb", [b["subs"][0][0]]]
                    mem[b["subs"][1][0]] = ["bun", "sb"]
                    buns = buns + [["sb", b["subs"][1][1]]]
                    c0 = {"bp": ["anon", mem]}
                    c1 = {"bp": ["bun", "bb"]}
                elif form == "port-pass":
                    mid = _mod("Mid", ports=[["k1", 1, "none"], ["k2", 2, "none"], ["k3", 3, "none"]],
                               bports=[["mp", bname, flipped, role]],
                               insts=[_inst("c", ["mod", "Cb"], dict(kc, bp=["bun", "mp"]))])
                    top = _mod("T", sigs=sigs, buns=buns,
                               insts=[_inst("m0", ["mod", "Mid"], dict(kc, mp=["bun", "bb"])),
                                      _inst("m1", ["mod", "Mid"], dict(kc, mp=["bun", "bb"]))])
                    yield (f"bundle-{bname}-{'flip' if flipped else 'noflip'}-{form}",
                           {"bundles": B(), "modules": [ch, mid, top], "top": "T"})
                    continue
                c0.update(kc)
                c1.update(kc)
                top = _mod("T", sigs=sigs, buns=buns,
                           insts=[_inst("c0", ["mod", "Cb"], c0), _inst("c1", ["mod", "Cb"], c1)] + tops_insts)
                yield (f"bundle-{bname}-{'flip' if flipped else 'noflip'}-{form}",
                       {"bundles": B(), "modules": [ch, top], "top": "T"})

    # a bundle port connected to an instance of ANOTHER definition of the same structure (flat, and with nested members)
    for bport, binst in (("B1", "B1t"), ("B3", "B3t"), ("B3t", "B3")):
        leaves = refsem.bundle_leaves({"bundles": BUNDLES}, bport)
        cin = []
        for k, (path, w) in enumerate(leaves):
            leaf, port, others = leaf_for_width(w)
            c = {port: ["bref", "bp", list(path)]}
            for p, pw in others.items():
                c[p] = S(f"k{pw}")
            cin.append(_inst(f"e{k}", L(leaf), c, tag=10 + k))
        ch = _mod("Cb", ports=[["k1", 1, "none"], ["k2", 2, "none"], ["k3", 3, "none"]], bports=[["bp", bport, False, None]], insts=cin)
        kc = {"k1": S("k1"), "k2": S("k2"), "k3": S("k3")}
        obs = []
        for k, (path, w) in enumerate(leaves):
            leaf, port, others = leaf_for_width(w)
            obs.append(_inst(f"ob{k}", L(leaf), dict({port: ["bref", "bb", list(path)]}, **{p_: S(f"k{pw_}") for p_, pw_ in others.items()}), tag=40 + k))
        top = _mod("T", sigs=[["k1", 1], ["k2", 2], ["k3", 3]], buns=[["bb", binst]],
                   insts=[_inst("c0", ["mod", "Cb"], dict(kc, bp=["bun", "bb"]))] + obs)
        yield (f"bundle-twin-types-{bport}-{binst}", {"bundles": B(), "modules": [ch, top], "top": "T"})

    # bundle instances made by copying / multiplying / flipping ANOTHER instance that is used too
    for bname in ("B1", "B2", "B3"):
        leaves = refsem.bundle_leaves({"bundles": BUNDLES}, bname)
        cin = []
        for k, (path, w) in enumerate(leaves):
            leaf, port, others = leaf_for_width(w)
            c = {port: ["bref", "bp", list(path)]}
            for p, pw in others.items():
                c[p] = S(f"k{pw}")
            cin.append(_inst(f"e{k}", L(leaf), c, tag=10 + k))
        ch = _mod("Cb", ports=[["k1", 1, "none"], ["k2", 2, "none"], ["k3", 3, "none"]], bports=[["bp", bname, False, None]], insts=cin)
        kc = {"k1": S("k1"), "k2": S("k2"), "k3": S("k3")}
        top = _mod("T", sigs=[["k1", 1], ["k2", 2], ["k3", 3]],
                   buns=[["a", bname], ["b", bname, "copyof:a"], ["c", bname, "flippedof:a"], ["d", bname, "mult"], ["e", bname, "flippedof:d"]],
                   insts=[_inst(f"c{k}", ["mod", "Cb"], dict(kc, bp=["bun", bn])) for k, bn in enumerate("abcde")])
        yield (f"bundle-copies-{bname}", {"bundles": B(), "modules": [ch, top], "top": "T"})

    # one bundle (or reference) feeding SEVERAL ports of one instance
    obs = []
    for k, bpn in enumerate(("bp1", "bp2", "bp3")):
        obs.append(_inst(f"e{k}", L("E2"), {"x": ["bref", bpn, ["y"]], "y": ["bref", bpn, ["x"]]}, tag=40 + k))
    cm = _mod("Cm", bports=[["bp1", "B1", False, None], ["bp2", "B1", False, None], ["bp3", "B1", True, None]], insts=obs)
    for variant in range(3):
        c0 = {"bp1": ["bun", "bb"], "bp2": ["bun", "bb"], "bp3": ["bun", "bb"]}
        c1 = {"bp1": ["bun", "bb"], "bp2": ["bun", "b2"], "bp3": ["bun", "bb"]}
        if variant == 1:
            c1 = {"bp1": ["bref", "b3", ["lo"]], "bp2": ["bref", "b3", ["lo"]], "bp3": ["bref", "b3", ["hi"]]}
        if variant == 2:
            c1 = {"bp1": ["pref", "c0", "bp1"], "bp2": ["pref", "c0", "bp1"], "bp3": ["anon", {"x": ["bref", "bb", ["x"]], "y": ["bref", "b2", ["y"]]}]}
        top = _mod("T", buns=[["bb", "B1"], ["b2", "B1"], ["b3", "B3"]],
                   insts=[_inst("c0", ["mod", "Cm"], c0), _inst("c1", ["mod", "Cm"], c1),
                          _inst("zo", L("E2"), {"x": ["bref", "b3", ["hi", "y"]], "y": ["bref", "b3", ["hi", "x"]]}, tag=60),
                          _inst("zp", L("E2"), {"x": ["bref", "b3", ["lo", "y"]], "y": ["bref", "b3", ["z"]]}, tag=61),
                          _inst("zq", L("E2"), {"x": ["bref", "b2", ["y"]], "y": ["bref", "b2", ["x"]]}, tag=62)])
        yield (f"bundle-multi-port-{variant}", {"bundles": B(), "modules": [copy.deepcopy(cm), top], "top": "T"})

    # --- a port first tied to something, then re-connected (only the last connection is part of the design) --------
    for n in (2, 3):
        for first in ("pref-implicit", "pref-explicit", "bundle", "bref"):
            insts = [_inst(f"r{k}", L("E2"), {"x": S("vss")}, tag=30 + k) for k in range(n + 1)]
            for k in range(2, n + 1):
                insts[k]["conns"]["y"] = ["pref", "r0", "y"]      # r2.. follow r0.x (an implicit net)
            insts[1]["conns"]["y"] = S("b")                        # r1.x ends on b ...
            if first == "pref-explicit":
                insts[0]["conns"]["y"] = S("c")
            pre = {"pref-implicit": ["pref", "r0", "y"], "pref-explicit": ["pref", "r0", "y"], "bundle": ["bref", "bb", ["x"]],
                   "bref": ["bref", "b3", ["lo", "x"]]}[first]   # ... but was first tied elsewhere
            top = _mod("T", sigs=[["vss", 2], ["b", 1], ["c", 1], ["w2", 2]], buns=[["bb", "B1"], ["b3", "B3"]],
                       insts=insts + [_inst("ob", L("E2"), {"y": ["bref", "bb", ["x"]], "x": S("w2")}, tag=40),
                                      _inst("oc", L("E2"), {"y": ["bref", "b3", ["lo", "x"]], "x": S("w2")}, tag=41)])
            top["pre_conns"] = [["r1", "y", pre]]
            yield (f"reconnected-{n}-{first}", {"bundles": B(), "modules": [top], "top": "T"})

    # --- arrays -------------------------------------------------------------------------------------
    ch = _mod("Ca", ports=[["a", 2, "in"], ["b", 1, "out"]], bports=[["bp", "B1", False, None]],
              insts=[_inst("e", L("E2"), {"x": S("a"), "y": S("b")}, tag=1),
                     _inst("f", L("E2"), {"x": ["bref", "bp", ["y"]], "y": ["bref", "bp", ["x"]]}, tag=2)])
    for n in (1, 2, 3):
        for aform in ("broadcast", "per-elem", "per-elem-cat", "per-elem-slice", "per-elem-revslice", "per-elem-revcat", "pref", "pref-from"):
            sigs = [["a2", 2], ["wide", 2 * n], ["b1", 1], ["bn", n], ["big", 2 * n + 2], ["q", 1]]
            conns: Dict[str, Any] = {"bp": ["bun", "bb"]}
            extra = []
            if aform == "broadcast":
                conns.update({"a": S("a2"), "b": S("b1")})
            elif aform == "per-elem":
                conns.update({"a": S("wide"), "b": S("bn")})
            elif aform == "per-elem-cat":
                conns.update({"a": ["cat"] + [S("a2")] * n if n > 1 else S("a2"), "b": ["cat"] + [S("q")] * n if n > 1 else S("q")})
            elif aform == "per-elem-slice":
                conns.update({"a": ["slice", S("big"), [1, 2 * n + 1, None]], "b": ["slice", S("big"), [0, n, None]]})
            elif aform == "per-elem-revslice":  # a reversed slice, split across the elements
                conns.update({"a": ["slice", S("big"), [2 * n, 0, -1]], "b": ["slice", S("big"), [n - 1, None, -1]] if n > 1 else S("q")})
            elif aform == "per-elem-revcat":
                conns.update({"a": ["slice", ["cat", S("a2"), S("wide")], [None, None, -1]] if False else ["slice", ["cat", S("q"), S("wide")], [2 * n, 0, -1]],
                              "b": S("b1")})
            elif aform == "pref":  # array port fed by a port reference to a single instance
                conns.update({"a": ["pref", "src", "x"], "b": ["pref", "src", "y"]})
                extra.append(_inst("src", L("E2"), {}, tag=7))
            elif aform == "pref-from":  # a single instance fed by a reference to the array's (broadcast) port
                conns.update({"b": S("b1")})
                extra.append(_inst("dst", L("E2"), {"x": ["pref", "arr", "a"], "y": S("q")}, tag=8))
            top = _mod("T", sigs=sigs, buns=[["bb", "B1"]],
                       insts=[_inst("arr", ["mod", "Ca"], conns, kind="array", n=n)] + extra +
                             [_inst("ob", L("E2"), {"x": ["bref", "bb", ["y"]], "y": ["bref", "bb", ["x"]]}, tag=20)])
            yield (f"array-{n}-{aform}", {"bundles": B(), "modules": [copy.deepcopy(ch), top], "top": "T"})
    # no-connects on array and pair ports: every element's port ends alone
    for n in (1, 2, 3):
        for which in ("out", "bus", "both", "bundle-port"):
            conns = {"a": S("a2"), "b": S("b1"), "bp": ["bun", "bb"]}
            if which in ("out", "both"):
                conns["b"] = ["nc", 1, None]
            if which in ("bus", "both"):
                conns["a"] = ["nc", 2, "open" if which == "both" else None]
            if which == "bundle-port":
                conns["bp"] = ["nc", 3, None]
            top = _mod("T", sigs=[["a2", 2], ["b1", 1]], buns=[["bb", "B1"]],
                       insts=[_inst("arr", ["mod", "Ca"], conns, kind="array", n=n),
                              _inst("oa", L("E2"), {"x": S("a2"), "y": S("b1")}, tag=21),
                              _inst("ob", L("E2"), {"x": ["bref", "bb", ["y"]], "y": ["bref", "bb", ["x"]]}, tag=20)])
            yield (f"array-{n}-noconn-{which}", {"bundles": B(), "modules": [copy.deepcopy(ch), top], "top": "T"})
    for which in ("scalar", "bundle-port"):
        cp = _mod("Cp", ports=[["a", 2, "in"], ["b", 1, "out"]], bports=[["bp", "B1", False, None]],
                  insts=[_inst("e", L("E2"), {"x": S("a"), "y": S("b")}, tag=1),
                         _inst("f", L("E2"), {"x": ["bref", "bp", ["y"]], "y": ["bref", "bp", ["x"]]}, tag=2)])
        if which == "scalar":
            cp["bports"] = []
            cp["insts"] = cp["insts"][:1]
        conns = {"a": S("a2"), "b": ["nc", 1, None]} if which == "scalar" else {"a": ["nc", 2, None], "b": S("b1"), "bp": ["nc", 3, None]}
        top = _mod("T", sigs=[["a2", 2], ["b1", 1]], buns=[["bb", "B1"]],
                   insts=[_inst("pr", ["mod", "Cp"], conns, kind="pair"),
                          _inst("oa", L("E2"), {"x": S("a2"), "y": S("b1")}, tag=21),
                          _inst("ob", L("E2"), {"x": ["bref", "bb", ["y"]], "y": ["bref", "bb", ["x"]]}, tag=20)])
        yield (f"pair-noconn-{which}", {"bundles": B(), "modules": [cp, top], "top": "T"})
    # arrays of leaves, and anonymous-bundle / bundle-reference valued array ports
    for n in (2, 3):
        top = _mod("T", sigs=[["s", n], ["g", 1]],
                   insts=[_inst("arr", L("E1"), {"a": S("s"), "b": S("g")}, tag=3, kind="array", n=n)])
        yield (f"array-leaf-{n}", {"bundles": B(), "modules": [top], "top": "T"})
        top = _mod("T", sigs=[["x1", 1], ["y2", 2], ["a2", 2], ["b1", 1]], buns=[["b3", "B3"]],
                   insts=[_inst("arr", ["mod", "Ca"], {"a": S("a2"), "b": S("b1"), "bp": ["anon", {"x": S("x1"), "y": S("y2")}]}, kind="array", n=n),
                          _inst("ar2", ["mod", "Ca"], {"a": ["bref", "b3", ["lo", "y"]], "b": ["bref", "b3", ["z"]], "bp": ["bref", "b3", ["hi"]]}, kind="array", n=n)])
        yield (f"array-anon-bref-{n}", {"bundles": B(), "modules": [copy.deepcopy(ch), top], "top": "T"})

    # --- pairs --------------------------------------------------------------------------------------
    for pform in ("diff", "inverse", "scalar", "anon", "mixed"):
        conns: Dict[str, Any]
        if pform == "diff":
            conns = {"a": ["bun", "d0"], "b": ["bun", "d1"]}
        elif pform == "inverse":
            conns = {"a": ["anon", {"p": ["bref", "d0", ["n"]], "n": ["bref", "d0", ["p"]]}], "b": ["bun", "d1"]}
        elif pform == "scalar":
            conns = {"a": S("g"), "b": S("h")}
        elif pform == "anon":
            conns = {"a": ["anon", {"p": S("g"), "n": S("h")}], "b": ["anon", {"p": ["bref", "d1", ["p"]], "n": S("g")}]}
        else:
            conns = {"a": ["bun", "d0"], "b": S("g")}
        top = _mod("T", sigs=[["g", 1], ["h", 1]], buns=[["d0", "Diff"], ["d1", "Diff"]],
                   insts=[_inst("pr", L("E1"), conns, tag=5, kind="pair"),
                          _inst("o0", L("E1"), {"a": ["bref", "d0", ["p"]], "b": ["bref", "d0", ["n"]]}, tag=6),
                          _inst("o1", L("E1"), {"a": ["bref", "d1", ["p"]], "b": ["bref", "d1", ["n"]]}, tag=7)])
        yield (f"pair-{pform}", {"bundles": B(), "modules": [top], "top": "T"})


# ---------------------------------------------------------------------------------------------------------
# seeded random hierarchies


class RandomDesigner:
    def __init__(self, rng, max_modules=5, max_width=4, allow_step=False, styles=("proc", "class", "gen"),
                 p_pref=0.15, p_nc=0.08, p_array=0.15, p_pair=0.06, p_bundle=0.5):
        self.r = rng
        self.max_modules = max_modules
        self.max_width = max_width
        self.allow_step = allow_step
        self.styles = styles
        self.p_pref, self.p_nc, self.p_array, self.p_pair, self.p_bundle = p_pref, p_nc, p_array, p_pair, p_bundle
        self.tag = 0

    def newtag(self):
        self.tag += 1
        return self.tag

    # -- expressions of a given width from the signals of a module under construction
    def expr(self, M: dict, w: int, depth: int = 0):
        r = self.r
        sigs = M["_sigw"]
        choice = r.random()
        exact = [n for n, sw in sigs.items() if sw == w]
        wider = [n for n, sw in sigs.items() if sw > w]
        if depth >= 2 or choice < 0.35:
            if exact and r.random() < 0.8:
                return ["sig", r.choice(exact)]
            if wider:
                return self.slice_of(["sig", r.choice(wider)], sigs, w)
            return ["sig", self.newsig(M, w)]
        if choice < 0.55 and wider:
            return self.slice_of(["sig", r.choice(wider)], sigs, w)
        if choice < 0.8 and w >= 2:
            k = r.randint(2, min(3, w))
            cuts = sorted(r.sample(range(1, w), k - 1))
            ws = [b - a for a, b in zip([0] + cuts, cuts + [w])]
            return ["cat"] + [self.expr(M, x, depth + 1) for x in ws]
        if choice < 0.9:
            W = r.randint(w + 1, w + 2)
            inner = self.expr(M, W, depth + 1)
            return self.slice_raw(inner, W, w)
        if M["_bleaves"]:
            cands = [(b, p) for (b, p, bw) in M["_bleaves"] if bw == w]
            if cands:
                b, p = r.choice(cands)
                return ["bref", b, list(p)]
        if exact:
            return ["sig", r.choice(exact)]
        return ["sig", self.newsig(M, w)]

    def slice_of(self, inner, sigs, w):
        W = sigs[inner[1]]
        return self.slice_raw(inner, W, w)

    def slice_raw(self, inner, W, w):
        r = self.r
        if w == 1 and r.random() < 0.5:
            i = r.randrange(W)
            return ["slice", inner, i if r.random() < 0.6 else i - W]
        a = r.randint(0, W - w)
        start: Optional[int] = a
        stop: Optional[int] = a + w
        if r.random() < 0.3:
            start = a - W
            stop = (a + w - W) if (a + w - W) != 0 else None
        if a == 0 and r.random() < 0.3:
            start = None
        if a + w == W and r.random() < 0.3:
            stop = None
        return ["slice", inner, [start, stop, None if r.random() < 0.8 else 1]]

    def newsig(self, M, w):
        n = f"n{len(M['sigs'])}"
        M["sigs"].append([n, w])
        M["_sigw"][n] = w
        return n

    def bundle_expr(self, M, bname, design, nested=False):
        """A bundle-valued expression for a port of bundle type bname."""
        r = self.r
        leaves = refsem.bundle_leaves(design, bname)
        same = [b for b, bn in M["_buns"].items() if bn == bname]
        x = r.random()
        if x < 0.55 or bname == "Diff":
            if not same or r.random() < 0.3:
                n = f"bi{len(M['buns'])}"
                M["buns"].append([n, bname])
                M["_buns"][n] = bname
                for p, w in leaves:
                    M["_bleaves"].append((n, p, w))
                same.append(n)
            return ["bun", r.choice(same)]
        # anonymous bundle, possibly nested / dict shorthand
        mem: Dict[str, Any] = {}
        bd = design["bundles"][bname]
        for s in bd["sigs"]:
            mem[s[0]] = self.expr(M, s[1], 1)
        for sub in bd["subs"]:
            mem[sub[0]] = self.bundle_expr(M, sub[1], design, nested=True)
        return ["anon", mem] + (["dict"] if (not nested and r.random() < 0.3) else [])

    def module(self, design, idx: int, is_top: bool):
        r = self.r
        M = _mod(f"M{idx}", style=r.choice(self.styles))
        M["_sigw"], M["_buns"], M["_bleaves"] = {}, {}, []
        # ports
        for k in range(r.randint(1, 3)):
            w = r.randint(1, self.max_width)
            M["ports"].append([f"p{k}", w, r.choice(["in", "out", "inout", "none"])])
            M["_sigw"][f"p{k}"] = w
        if r.random() < self.p_bundle * 0.6:
            bname = r.choice(["B1", "B2", "B3", "B4", "B5"])
            role = r.choice(["HOST", "DEV", None]) if bname == "B5" else None
            M["bports"].append(["bp0", bname, r.random() < 0.4, role])
            M["_buns"]["bp0"] = bname
            for p, w in refsem.bundle_leaves(design, bname):
                M["_bleaves"].append(("bp0", p, w))
        for k in range(r.randint(0, 3)):
            w = r.randint(1, self.max_width + 1)
            M["sigs"].append([f"s{k}", w])
            M["_sigw"][f"s{k}"] = w
        # instances
        prior = [m["name"] for m in design["modules"]]
        ninst = r.randint(1, 4)
        for k in range(ninst):
            if prior and r.random() < 0.6:
                of = ["mod", r.choice(prior)]
                tag = None
            else:
                of = ["leaf", r.choice(["E1", "E2", "E3", "E4", "E5", "R", "C", "VCVS", "MOS"])]
                tag = self.newtag()
            kind, n = "single", 1
            x = r.random()
            if x < self.p_array:
                kind, n = "array", r.randint(1, 3)
            elif x < self.p_array + self.p_pair and not refsem.iface(design, of)[1]:
                kind = "pair"
            M["insts"].append(_inst(f"i{k}", of, {}, tag=tag, kind=kind, n=n))
        design["modules"].append(M)
        # connections
        for inst in M["insts"]:
            sp, bp = refsem.iface(design, inst["of"])
            for port, w in sp.items():
                x = r.random()
                kind = inst["kind"]
                if x < self.p_nc:
                    # (on arrays and pairs every element's port ends alone; shared no-connect objects only between single instances)
                    inst["conns"][port] = ["nc", r.randint(0, 2) if r.random() < 0.3 and kind == "single" else 100 + self.newtag(), None]
                elif x < self.p_nc + self.p_pref and kind == "single":
                    # port reference to another single instance's port of equal width
                    cands = []
                    for other in M["insts"]:
                        if other is inst or other["kind"] != "single":
                            continue
                        osp, _ = refsem.iface(design, other["of"])
                        cands += [(other["name"], q) for q, qw in osp.items() if qw == w]
                    if cands:
                        o, q = r.choice(cands)
                        inst["conns"][port] = ["pref", o, q]
                    else:
                        inst["conns"][port] = self.expr(M, w)
                elif kind == "array" and r.random() < 0.5:
                    inst["conns"][port] = self.expr(M, w * inst["n"])
                elif kind == "pair" and w == 1 and r.random() < 0.6:
                    if r.random() < 0.5:
                        inst["conns"][port] = self.bundle_expr(M, "Diff", design)
                    else:
                        inst["conns"][port] = ["anon", {"p": self.expr(M, 1, 1), "n": self.expr(M, 1, 1)}]
                else:
                    inst["conns"][port] = self.expr(M, w)
            for port, bname in bp.items():
                inst["conns"][port] = self.bundle_expr(M, bname, design)
        # the no-connect / port-reference interplay: a port tied to a no-connect must not be referenced
        referenced = set()

        def scan(e):
            if e[0] == "pref":
                referenced.add((e[1], e[2]))
            elif e[0] in ("slice",):
                scan(e[1])
            elif e[0] == "cat":
                for p in e[1:]:
                    scan(p)
            elif e[0] == "anon":
                for p in e[1].values():
                    scan(p)

        for inst in M["insts"]:
            for e in inst["conns"].values():
                scan(e)
        for inst in M["insts"]:
            for port, e in list(inst["conns"].items()):
                if e[0] == "nc" and (inst["name"], port) in referenced:
                    sp, _ = refsem.iface(design, inst["of"])
                    inst["conns"][port] = self.expr(M, sp[port])
        # sometimes drop an explicit connection that is referenced anyway (implicit signal)
        for inst in M["insts"]:
            for port in list(inst["conns"]):
                if (inst["name"], port) in referenced and inst["conns"][port][0] == "sig" and r.random() < 0.4:
                    del inst["conns"][port]
        for k in ("_sigw", "_buns", "_bleaves"):
            M.pop(k)
        return M

    def design(self) -> dict:
        design = {"bundles": copy.deepcopy(BUNDLES), "modules": [], "top": None}
        n = self.r.randint(1, self.max_modules)
        for idx in range(n):
            self.module(design, idx, idx == n - 1)
        design["top"] = design["modules"][-1]["name"]
        # keep only modules reachable from the top
        reach = set()

        def visit(name):
            if name in reach:
                return
            reach.add(name)
            for i in refsem.get_module(design, name)["insts"]:
                if i["of"][0] == "mod":
                    visit(i["of"][1])

        visit(design["top"])
        design["modules"] = [m for m in design["modules"] if m["name"] in reach]
        return design


def random_design(rng, **kw) -> dict:
    for _ in range(50):
        d = RandomDesigner(rng, **kw).design()
        if refsem.validate(d) is None:
            return d
    raise RuntimeError("random designer produced 50 invalid designs in a row")
