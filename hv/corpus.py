"""
Package-producing workloads shared by C06 (M-pkg) and C11 (M-rt): each item is (label, thunk) where the thunk makes
one or more real `to_proto` calls (directly or through `netlist`, `examples.*.main`, PDK compile + export).
"""

from __future__ import annotations

import contextlib
import io
import itertools
import random
from typing import Callable, Iterator, Tuple

from . import build, refsem, spec


def generated_designs(ctx, rng, n_random: int, depth: int = 2) -> Iterator[Tuple[str, Callable]]:
    import hdl21 as h

    def mk(d):
        return lambda: h.to_proto(build.build(d).top)

    for label, d in spec.structural_designs():
        yield label, mk(d)
    for label, d in spec.kernel_designs(depth, 1):
        yield label, mk(d)
    for k in range(n_random):
        yield f"random #{k}", mk(spec.random_design(rng))
    # strided / reversed slices and nested concatenations, on narrow (also one-bit) signals
    for k in range(max(20, n_random // 4)):
        yield f"random-strided #{k}", mk(spec.random_design(rng, allow_step=True, max_width=1 + k % 3, max_modules=2))
    yield "one-bit strided / nested concat forms", mk(_onebit_forms())


def _onebit_forms() -> dict:
    """Expression forms on one-bit signals that must keep their exported shape through a round trip."""
    S = lambda n: ["sig", n]
    z = S("z")
    forms = [["slice", z, [None, None, -1]], ["slice", z, [None, None, 2]], ["slice", z, [0, 1, None]], ["slice", ["cat", z], [None, None, None]],
             ["slice", ["cat", ["cat", z], S("y"), S("w")], [0, 2, None]], ["cat", ["cat", z]], ["cat", ["slice", z, [None, None, -1]], S("y")],
             ["slice", ["slice", S("y"), [None, None, -1]], [0, 1, None]]]
    insts = []
    for k, e in enumerate(forms):
        w = len(refsem.Local({"bundles": {}, "modules": []}, {"name": "F", "ports": [], "bports": [], "sigs": [["z", 1], ["y", 1], ["w", 1]], "buns": [], "insts": []}).bits(e))
        insts.append({"name": f"f{k}", "kind": "single", "of": ["leaf", refsem.wleaf(w)], "tag": k, "conns": {"p": e}})
    top = {"name": "F", "style": "proc", "ports": [], "bports": [], "sigs": [["z", 1], ["y", 1], ["w", 1]], "buns": [], "insts": insts}
    return {"bundles": {}, "modules": [top], "top": "F"}


def examples(ctx) -> Iterator[Tuple[str, Callable]]:
    import importlib

    for name in ("ro", "rdac", "encoder", "mos_sim", "diff_ota", "idac", "bundles"):
        def thunk(name=name):
            import os, sys

            mod = importlib.import_module(f"examples.{name}")
            # some examples captured sys.stdout at import time: silence file descriptor 1 itself
            sys.stdout.flush()
            saved = os.dup(1)
            devnull = os.open(os.devnull, os.O_WRONLY)
            try:
                os.dup2(devnull, 1)
                with contextlib.redirect_stdout(io.StringIO()):
                    mod.main()
                    sys.__stdout__.flush()
            finally:
                os.dup2(saved, 1)
                os.close(saved)
                os.close(devnull)

        yield f"examples.{name}.main", thunk


_uid = itertools.count()


def builtin_generators(ctx, rng, nmax: int) -> Iterator[Tuple[str, Callable]]:
    import hdl21 as h
    from hdl21.generators import Series, MosStack, Wrapper, CmDmGen, Balun
    from hdl21.prefix import m, K

    units = [("R", lambda: h.R(r=1 * K), ("p", "n")), ("C", lambda: h.C(c=1 * m), ("p", "n")),
             ("Mos", lambda: h.Mos(), ("d", "s")), ("Vcvs", lambda: h.Vcvs(gain=2), ("p", "n")),
             ("Res3", lambda: h.primitives.ThreeTerminalResistor(), ("p", "n"))]
    for n in range(1, nmax + 1):
        for uname, mk, conns in units:
            def thunk(mk=mk, conns=conns, n=n):
                top = h.Module(name=f"SerTop{next(_uid)}")
                ser = Series(unit=mk(), conns=conns, nser=n)
                sigs = {p: top.add(h.Signal(width=ser.ports[p].width), name=f"s_{p}") for p in ser.ports}
                top.add(h.Instance(of=ser)(**sigs), name="u")
                return h.to_proto(top)

            yield f"Series({uname}, nser={n})", thunk
        yield f"MosStack(nser={n})", (lambda n=n: h.to_proto(MosStack(nser=n)))
    from hdl21.generators import AcDc
    from hdl21.prefix import UNIT, m as _milli

    # (CmDmGen() with default parameters cannot be called at all on this tree: AcDc's int defaults are rejected by its own
    #  Prefixed-typed fields; that is outside the 19 properties, so explicit values are given)
    yield "CmDmGen", lambda: h.to_proto(CmDmGen(cm=AcDc(ac=0 * UNIT, dc=900 * _milli), dm=AcDc(ac=1 * UNIT, dc=0 * UNIT)))
    yield "Balun", lambda: h.to_proto(Balun())
    for uname, mk, _ in units:
        def wthunk(mk=mk):
            w = Wrapper(mk())
            w.name = f"{w.name}{next(_uid)}"
            return h.to_proto(w)

        yield f"Wrapper({uname})", wthunk


def pdk_designs(ctx, rng, n: int) -> Iterator[Tuple[str, Callable]]:
    """Generic-primitive designs compiled to each PDK, then exported."""
    import hdl21 as h
    from hdl21.primitives import MosType, MosVth, MosFamily

    def design(kind):
        mname = f"Pd{next(_uid)}"
        top = h.Module(name=mname)
        top.add(h.Port(name="VDD"))
        top.add(h.Port(name="VSS"))
        top.add(h.Signal(name="a"))
        top.add(h.Signal(name="b"))
        if kind == "sample":
            top.add(h.Mos(tp=MosType.NMOS)(d=top.a, g=top.b, s=top.VSS, b=top.VSS), name="n0")
            top.add(h.Mos(tp=MosType.PMOS)(d=top.a, g=top.b, s=top.VDD, b=top.VDD), name="p0")
        elif kind == "sky130":
            top.add(h.Mos(tp=MosType.NMOS, model="NMOS_1p8V_STD")(d=top.a, g=top.b, s=top.VSS, b=top.VSS), name="n0")
            top.add(h.Mos(tp=MosType.PMOS, family=MosFamily.CORE, vth=MosVth.STD)(d=top.a, g=top.b, s=top.VDD, b=top.VDD), name="p0")
        elif kind == "gf180":
            top.add(h.Mos(model="NFET_3p3V")(d=top.a, g=top.b, s=top.VSS, b=top.VSS), name="n0")
            top.add(h.Mos(model="PFET_3p3V")(d=top.a, g=top.b, s=top.VDD, b=top.VDD), name="p0")
        elif kind == "asap7":
            top.add(h.Mos(tp=MosType.NMOS)(d=top.a, g=top.b, s=top.VSS, b=top.VSS), name="n0")
            top.add(h.Mos(tp=MosType.PMOS)(d=top.a, g=top.b, s=top.VDD, b=top.VDD), name="p0")
        return top

    def thunk(kind):
        import importlib

        top = design(kind)
        if kind == "sample":
            pdk = importlib.import_module("hdl21.pdk.sample_pdk")
        else:
            pdk = importlib.import_module(f"{kind}_hdl21")
        pdk.compile(top)
        return h.to_proto(top)

    for k in range(n):
        for kind in ("sample", "sky130", "gf180", "asap7"):
            yield f"pdk-{kind} #{k}", (lambda kind=kind: thunk(kind))


def param_space(ctx, rng, n: int) -> Iterator[Tuple[str, Callable]]:
    """Primitive / external-module instances over the parameter space (reuses the C13 generators)."""
    import hdl21 as h
    from .checks import c13

    L = c13.lib()
    names = sorted(L["prims"])

    def one(call, label, domain=None):
        def thunk():
            mname = f"Ps{next(_uid)}"
            m = h.Module(name=mname)
            conns = {p: m.add(h.Signal(width=port.width), name=f"n_{p}") for p, port in call.ports.items()}
            m.add(h.Instance(of=call)(**conns), name="x")
            m.literals.append(h.Literal("* a literal line"))
            m.literals.append(h.Literal(".include 'x y.sp'"))
            return h.to_proto(m, domain=domain) if domain is not None else h.to_proto(m)

        return label, thunk

    import typing

    for k in range(n):
        pname = names[k % len(names)]
        prim = L["prims"][pname]
        given = {}
        for fname, par in prim.Params.__params__.items():
            if par.dtype is h.Scalar or par.dtype == typing.Optional[h.Scalar]:
                if rng.random() < 0.8:
                    given[fname] = c13.rand_scalar_input(rng)
                elif par.dtype == typing.Optional[h.Scalar]:
                    given[fname] = None
        try:
            call = prim(**given)
        except Exception:
            continue
        yield one(call, f"{pname}({given})")
    from vlsirtools import SpiceType

    for st in SpiceType:
        em = h.ExternalModule(name=f"X{st.name}", domain="hvlib", port_list=[h.Input(name="a"), h.Output(name="b", width=2), h.Inout(name="c")],
                              paramtype=dict, spicetype=st)
        for j in range(3):
            params = {f"p{i}": rng.choice([c13.rand_int(rng), 1.5, "txt", h.Literal("w/2"), c13.rand_prefixed(rng), c13.rand_decimal(rng), None])
                      for i in range(3)}
            yield one(em(params), f"ExternalModule[{st.name}]({params})")
    # external modules without a domain, in packages with and without one; packages with a domain
    for dom in ("", "hvlib"):
        for pdom in (None, "", "pkgdom", "hvlib"):
            em = h.ExternalModule(name=f"Xd{len(dom)}", domain=dom, port_list=[h.Input(name="a"), h.Output(name="b", width=2), h.Inout(name="c")],
                                  paramtype=dict)
            yield one(em({"p": 1}), f"ExternalModule[domain={dom!r}] in package domain {pdom!r}", domain=pdom)
    # external modules declared in the domains of the built-in primitives, named like one of them or not: whatever reads the package
    # resolves these names to the built-ins. (Built lazily: the declaration itself may be refused, which counts as a rejected item.)
    for dom, name in (("vlsir.primitives", "resistor"), ("vlsir.primitives", "foo"), ("hdl21.primitives", "Mos"), ("hdl21.ideal", "R"), ("vlsir.primitives", "mos")):
        def thunk_res(dom=dom, name=name):
            em = h.ExternalModule(name=name, domain=dom, port_list=[h.Input(name="a"), h.Output(name="b")], paramtype=h.HasNoParams)
            return one(em(), "reserved")[1]()

        yield f"ExternalModule named {name!r} in the primitives' domain {dom!r}", thunk_res


EXEC_TEMPLATE = """
@h.module
class ExLeaf{u}:
    a = h.Input(width={w})
    b = h.Output()
    r = h.R(r=1)(p=a[0], n=b)

@h.module
class ExMid{u}:
    a = h.Input(width={w})
    b = h.Output()
    l = ExLeaf{u}(a=a, b=b)
    x = Ext()(p=b)

@h.module
class ExTop{u}:
    s = h.Signal(width={w})
    t = h.Signal()
    m = ExMid{u}(a=s, b=t)
    l = ExLeaf{u}(a=h.Concat(*[t] * {w}), b=h.NoConn())
"""


def exec_defined(ctx, rng, n: int) -> Iterator[Tuple[str, Callable]]:
    """Designs defined outside any Python module (exec / notebook cell / python -c): their exported names carry no path."""
    import hdl21 as h

    for k in range(n):
        for dom in ("", "extdom"):
            for pdom in (None, "pkgdom"):
                def thunk(k=k, dom=dom, pdom=pdom):
                    u = next(_uid)
                    E = h.ExternalModule(name=f"ExExt{u}", domain=dom, port_list=[h.Inout(name="p")], paramtype=h.HasNoParams)
                    ns = {"h": h, "Ext": E}
                    exec(EXEC_TEMPLATE.format(u=u, w=1 + k % 3), ns)
                    top = ns[f"ExTop{u}"]
                    return h.to_proto(top, domain=pdom) if pdom is not None else h.to_proto(top)

                yield f"exec-defined #{k} ext-domain={dom!r} package-domain={pdom!r}", thunk


def equal_valued_params(ctx, rng, n: int) -> Iterator[Tuple[str, Callable]]:
    """One design holding several instances of one primitive / external module whose parameters are numerically equal but
    written differently (1*K, 1000, "1e3"; m=2 and m=2.0): every instance keeps its own spelling."""
    import hdl21 as h
    from decimal import Decimal
    from hdl21.prefix import K, m as milli, UNIT

    spell = [1 * K, 1000, "1e3", Decimal("1000.0"), 1000.0, h.Prefixed(number=Decimal("1000"), prefix=UNIT), 1000000 * milli, Decimal("1E+3")]
    em = h.ExternalModule(name="EqVal", domain="hvlib", port_list=[h.Inout(name="p"), h.Inout(name="n")], paramtype=dict)
    emspell = [{"m": 2, "x": 0.5}, {"m": 2.0, "x": 500 * milli}, {"m": 2 * UNIT, "x": "0.5"}, {"m": True, "x": Decimal("0.50")}]
    for k in range(n):
        def thunk(k=k):
            order = list(spell)
            random_order = rng.sample(order, len(order))
            t = h.Module(name=f"Eq{next(_uid)}")
            a, b = t.add(h.Signal(), name="a"), t.add(h.Signal(), name="b")
            for j, v in enumerate(random_order):
                t.add(h.R(r=v)(p=a, n=b), name=f"r{j}")
                t.add(h.C(c=v)(p=a, n=b), name=f"c{j}")
            for j, pv in enumerate(rng.sample(emspell, len(emspell))):
                t.add(em(dict(pv))(p=a, n=b), name=f"x{j}")
            return h.to_proto(t)

        yield f"equal-valued parameters #{k}", thunk


def conflicting_externals(ctx, rng, n: int) -> Iterator[Tuple[str, Callable]]:
    """Successive packages of one process that declare DIFFERENT external modules under one (domain, name): same port names
    in another order, with other directions, widths or another spice type."""
    import hdl21 as h
    from vlsirtools import SpiceType

    shapes = [
        dict(ports=[("d", "in", 1), ("g", "in", 1), ("s", "out", 1), ("b", "io", 1)], st=SpiceType.SUBCKT),
        dict(ports=[("b", "io", 1), ("s", "out", 1), ("g", "in", 1), ("d", "in", 1)], st=SpiceType.SUBCKT),
        dict(ports=[("d", "out", 1), ("g", "out", 1), ("s", "in", 1), ("b", "in", 1)], st=SpiceType.SUBCKT),
        dict(ports=[("d", "in", 1), ("g", "in", 1), ("s", "out", 1), ("b", "io", 1)], st=SpiceType.MOS),
        dict(ports=[("d", "in", 2), ("g", "in", 1), ("s", "out", 1), ("b", "io", 3)], st=SpiceType.SUBCKT),
        dict(ports=[("d", "in", 1), ("g", "in", 1), ("s", "out", 1)], st=SpiceType.SUBCKT),
    ]
    mk = {"in": h.Input, "out": h.Output, "io": h.Inout}
    for k in range(n):
        for dom in ("", "hvconf"):
            order = list(range(len(shapes)))
            rng.shuffle(order)
            for j in order:
                sh = shapes[j]

                def thunk(sh=sh, dom=dom):
                    em = h.ExternalModule(name="ConflictX", domain=dom, port_list=[mk[d](name=n_, width=w) for n_, d, w in sh["ports"]],
                                          paramtype=h.HasNoParams, spicetype=sh["st"])
                    m = h.Module(name=f"Cf{next(_uid)}")
                    conns = {n_: m.add(h.Signal(width=w), name=f"n_{n_}") for n_, d, w in sh["ports"]}
                    m.add(em()(**conns), name="x")
                    return h.to_proto(m)

                yield f"conflicting-external shape {j} domain={dom!r} #{k}", thunk


def twin_externals(ctx, rng, n: int) -> Iterator[Tuple[str, Callable]]:
    """One design instantiating TWO ExternalModule objects that stand for one device (equal declarations under one domain and name,
    as the Sky130 / GF180 packages define each of theirs twice): the package declares the device once."""
    import hdl21 as h

    def mkx():
        return h.ExternalModule(name="TwinDev", domain="hvtwin", port_list=[h.Input(name="a"), h.Output(name="z", width=2)], paramtype=dict)

    def thunk_plain():
        x1, x2 = mkx(), mkx()
        m = h.Module(name=f"Tw{next(_uid)}")
        a, z = m.add(h.Signal(), name="a"), m.add(h.Signal(width=2), name="z")
        m.add(x1({"k": 1})(a=a, z=z), name="u1")
        m.add(x2({"k": 2})(a=a, z=z), name="u2")
        return h.to_proto(m)

    def thunk_pdk(kind):
        import importlib

        pdk = importlib.import_module(f"{kind}_hdl21")
        prims = importlib.import_module(f"{kind}_hdl21.primitives")
        dev = getattr(prims, "NMOS_1p8V_STD" if kind == "sky130" else "NFET_3p3V")
        m = h.Module(name=f"TwP{next(_uid)}")
        d, g, s_ = m.add(h.Signal(), name="d"), m.add(h.Signal(), name="g"), m.add(h.Signal(), name="s")
        m.add(dev()(d=d, g=g, s=s_, b=s_), name="direct")
        m.add(h.Mos(model="NMOS_1p8V_STD" if kind == "sky130" else "NFET_3p3V")(d=d, g=g, s=s_, b=s_), name="compiled")
        pdk.compile(m)
        return h.to_proto(m)

    for k in range(n):
        yield f"twin external modules #{k}", thunk_plain
        for kind in ("sky130", "gf180"):
            yield f"PDK device used directly and through compile ({kind}) #{k}", (lambda kind=kind: thunk_pdk(kind))


def reimported_externals(ctx, rng, n: int) -> Iterator[Tuple[str, Callable]]:
    """A module exported, imported again with `from_proto`, and instantiated NEXT TO the original external module it was built from
    (with and without a domain): one device, declared once in the new package."""
    import hdl21 as h

    for k in range(n):
        for dom in (None, "", "hvre"):
            def thunk(dom=dom):
                kw = {} if dom is None else {"domain": dom}
                em = h.ExternalModule(name=f"ReAmp{next(_uid)}", port_list=[h.Input(name="a"), h.Output(name="z")], paramtype=h.HasNoParams, **kw)
                m1 = h.Module(name=f"ReM{next(_uid)}")
                a, z = m1.add(h.Port(), name="a"), m1.add(h.Port(), name="z")
                m1.add(em()(a=a, z=z), name="x")
                ns = h.from_proto(h.to_proto(m1))
                # find the imported module in the returned namespace tree
                found = []

                def walk(node, depth=0):
                    for v in vars(node).values():
                        if isinstance(v, h.Module):
                            found.append(v)
                        elif hasattr(v, "__dict__") and depth < 8 and not isinstance(v, (str, type)):
                            walk(v, depth + 1)

                walk(ns)
                imported = [f for f in found if f.name == m1.name][0]
                top = h.Module(name=f"ReTop{next(_uid)}")
                s1, s2 = top.add(h.Signal(), name="s1"), top.add(h.Signal(), name="s2")
                top.add(h.Instance(of=imported)(a=s1, z=s2), name="i_imported")
                top.add(em()(a=s2, z=s1), name="i_original")
                return h.to_proto(top)

            yield f"imported module next to the original external module (domain={dom!r}) #{k}", thunk


def collision_designs(ctx, rng, n: int) -> Iterator[Tuple[str, Callable]]:
    """Adversarially named designs (the C05 variants): names the elaborator invents given to designer objects."""
    import hdl21 as h
    from .checks import c05

    bases = [(l, d) for l, d in spec.structural_designs()]
    rng.shuffle(bases)
    count = 0
    for label, base in bases:
        cands = []
        for m in base["modules"]:
            for N, why in c05.invented_names(base, m).items():
                for us in ("", "_"):
                    for kind in ("sig", "inst", "nc", "bun"):
                        cands.append((m["name"], N + us, kind))
        rng.shuffle(cands)
        # prefer clashes with flattened bundle-PORT members of sub-modules: the parent must follow the fresh port name
        pref = []
        for m in base["modules"][:-1]:
            for bp in m.get("bports", []):
                for N, why in c05.invented_names(base, m).items():
                    if N.startswith(bp[0] + "_"):
                        pref.append((m["name"], N, rng.choice(["sig", "inst", "port", "port"])))
        pref = [(a, b, k) for (a, b, _) in pref[:2] for k in ("port", "sig")]
        for (mname, N, kind) in pref + cands[:2]:
            v = c05.make_variant(base, mname, N, kind, rng.random() < 0.5, rng)
            if v is None:
                continue
            yield f"collision {label} / {mname}: {kind} named {N}", (lambda v=v: h.to_proto(build.build(v).top))
            count += 1
            if count >= n:
                return


def hostile_designs(ctx, rng, n: int) -> Iterator[Tuple[str, Callable]]:
    """Ill-formed designs (the single-fault mutants of C02).  They ought to be refused; if `to_proto` returns a package for one all
    the same, that package is judged like any other (C06 quantifies over every package a successful call returns)."""
    import hdl21 as h
    from .checks import c02

    bases = [(l, d) for l, d in spec.structural_designs()]
    rng.shuffle(bases)
    for label, base in bases[:n]:
        for m in base["modules"]:
            m.pop("pre_conns", None)
        for cls, site, d, expect in c02.mutations(base, rng, 1):
            yield f"hostile {label}: {cls} at {site}", (lambda d=d: h.to_proto(c02.build_mutant(d).top))
    # ... and C02's histories: sub-modules edited after another parent's elaboration failed late, or after their own succeeded
    for label, base in bases[: max(2, n // 4)]:
        yield f"hostile history {label}: faults added after a failed / finished elaboration", (lambda label=label, base=base: c02.after_failed_parent(_NullRec(), label, base, skip=c02.UNGUARDED))  # (those edits: known finding of C02)


class _NullRec:
    """Stands in for a check's recorder when another check's driver is borrowed as plain workload."""

    evaluations = 0

    def __getattr__(self, name):
        return lambda *a, **k: None


def edited_externals(ctx, rng, n: int) -> Iterator[Tuple[str, Callable]]:
    """One ExternalModule OBJECT, exported, then edited in place (a port appended to its `port_list`, its spice type or description
    changed) and used by the next design: every package declares the module as it is when that package is made."""
    import hdl21 as h
    from vlsirtools import SpiceType

    for k in range(n):
        em = h.ExternalModule(name=f"Edited{next(_uid)}", domain=rng.choice(["", "hved"]), port_list=[h.Input(name="a"), h.Output(name="z")], paramtype=h.HasNoParams)
        state = {"step": 0}

        def thunk(em=em, state=state):
            step = state["step"]
            state["step"] += 1
            if step == 1:
                em.port_list.append(h.Inout(name="vdd"))
            elif step == 2:
                em.port_list.append(h.Inout(name="bus", width=3))
                em.spicetype = SpiceType.RESISTOR if False else em.spicetype
            elif step == 3:
                em.port_list.pop(0)
            m = h.Module(name=f"Ed{next(_uid)}")
            conns = {p.name: m.add(h.Signal(width=p.width), name=f"n_{p.name}") for p in em.port_list}
            m.add(em()(**conns), name="x")
            return h.to_proto(m)

        for step in range(4):
            yield f"edited external module #{k} step {step}", thunk

        # ... and a design still written against the ports the module had BEFORE an edit (ill-formed by then: refused, or at least
        # never exported as a package whose instance and declaration disagree)
        em2 = h.ExternalModule(name=f"EditedOld{next(_uid)}", domain="hved", port_list=[h.Input(name="a"), h.Output(name="z")], paramtype=h.HasNoParams)

        def thunk_old(em2=em2, how=k % 3):
            old_ports = [(p.name, p.width) for p in em2.port_list]
            if how == 0:
                em2.port_list.append(h.Inout(name="sub"))
            elif how == 1:
                em2.port_list[0].name = "a_renamed"
            else:
                em2.port_list.pop()
            m = h.Module(name=f"EdOld{next(_uid)}")
            conns = {n_: m.add(h.Signal(width=w), name=f"n_{n_}") for n_, w in old_ports}
            m.add(em2()(**conns), name="x")
            return h.to_proto(m)

        yield f"design written against the ports of external module #{k} before its port list was edited", thunk_old


def edited_fields(ctx, rng, n: int) -> Iterator[Tuple[str, Callable]]:
    """States the constructors refuse, reached through plain fields afterwards - before anything was elaborated: external modules
    whose ports repeat a name (appended, assigned, re-named), whose domain / name became a reserved or empty one; Signals given a
    non-positive width, or added again after their visibility changed.  Refused, or exported as a well-formed package."""
    import hdl21 as h

    def ext(kind):
        def thunk():
            em = h.ExternalModule(name=f"Fld{next(_uid)}", domain="hvfld", port_list=[h.Input(name="a"), h.Output(name="b")], paramtype=h.HasNoParams)
            if kind == "append-repeat":
                em.port_list.append(h.Port(name="a"))
            elif kind == "assign-repeat":
                em.port_list = [h.Port(name="a"), h.Port(name="a")]
            elif kind == "rename-repeat":
                em.port_list[1].name = "a"
            elif kind == "reserved-domain":
                em.domain, em.name = "vlsir.primitives", "resistor"
            elif kind == "ideal-domain":
                em.domain = "hdl21.ideal"
            elif kind == "empty-name":
                em.name = ""
            elif kind == "unnamed-port":
                em.port_list[0].name = ""
            elif kind == "internal-port":
                em.port_list[0].vis = h.signal.Visibility.INTERNAL
            m = h.Module(name=f"FldTop{next(_uid)}")
            conns = {}
            for p_ in em.port_list:
                if p_.name and p_.name not in conns:
                    conns[p_.name] = m.add(h.Signal(width=p_.width), name=f"n_{p_.name}")
            m.add(em()(**conns), name="x")
            return h.to_proto(m)
        return thunk

    def sig(kind):
        def thunk():
            child = h.Module(name=f"FldCh{next(_uid)}")
            child.p = h.Port()
            child.q = h.Signal()
            child.r = h.R(r=1)(p=child.p, n=child.q)
            top = h.Module(name=f"FldTop{next(_uid)}")
            top.s = h.Signal()
            top.t = h.Signal(width=2)
            top.i = child(p=top.s)
            top.r2 = h.R(r=1)(p=top.t[0], n=top.t[1])
            if kind == "zero-width":
                child.p.width = 0
                top.s.width = 0
            elif kind == "zero-width-bare":
                # (nothing inside the child hangs on the port: no width comparison notices)
                child = h.Module(name=f"FldCh{next(_uid)}")
                child.p = h.Port()
                child.p.width = 0
                top = h.Module(name=f"FldTop{next(_uid)}")
                top.s = h.Signal()
                top.s.width = 0
                top.t = h.Signal(width=2)
                top.t.width = -2
                top.i = child(p=top.s)
            elif kind == "negative-width":
                top.t.width = -2
            elif kind == "string-width":
                top.s.width = "1"
            elif kind == "bool-width":
                top.s.width = True
            elif kind == "readd-as-port":
                child.q.vis = h.signal.Visibility.PORT
                child.q = child.q
            elif kind == "readd-as-signal":
                child.p.vis = h.signal.Visibility.INTERNAL
                child.add(child.p)
            return h.to_proto(top)
        return thunk

    for kind in ("append-repeat", "assign-repeat", "rename-repeat", "reserved-domain", "ideal-domain", "empty-name", "unnamed-port", "internal-port"):
        yield f"external module edited after construction: {kind}", ext(kind)
    for kind in ("zero-width", "zero-width-bare", "negative-width", "string-width", "bool-width", "readd-as-port", "readd-as-signal"):
        yield f"signal edited after construction: {kind}", sig(kind)
