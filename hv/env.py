"""
Bootstrap of the interpreter the checks run in.

* the repository under test is imported from its *working tree* (``/repo`` or ``$HV_REPO`` for the
  self-validation runs against scratch copies) -- nothing is cached between runs;
* the three PDK packages are importable from their source directories;
* ``/verif/.deps`` (icontract, deal, jsonschema) goes LAST on ``sys.path`` so that its
  ``typing_extensions`` never shadows the one pydantic was installed with;
* monitors refuse to install unless ``HDL21_VERIF=1`` (the guard of MANIFEST.hooks).
"""

import os
import subprocess
import sys
from pathlib import Path

VERIF = Path(__file__).resolve().parent.parent
REPO = Path(os.environ.get("HV_REPO", "/repo")).resolve()
GUARD = "HDL21_VERIF"
PY = "/venv/bin/python"


def ensure_deps() -> None:
    deps = VERIF / ".deps"
    if not (deps / "icontract").is_dir() or not (deps / "jsonschema").is_dir():
        subprocess.run(["/bin/sh", str(VERIF / "setup.sh")], check=True, stdout=subprocess.DEVNULL)


def bootstrap() -> None:
    """Arrange sys.path.  Idempotent."""
    ensure_deps()
    front = [
        str(REPO),
        str(REPO / "pdks" / "Sky130"),
        str(REPO / "pdks" / "Gf180"),
        str(REPO / "pdks" / "Asap7"),
    ]
    for p in reversed(front):
        if p in sys.path:
            sys.path.remove(p)
        sys.path.insert(0, p)
    # an editable-install entry for /repo may precede a scratch copy; drop it when HV_REPO is used
    if str(REPO) != "/repo":
        sys.path[:] = [p for p in sys.path if p != "/repo"]
    v = str(VERIF)
    if v not in sys.path:
        sys.path.insert(len(front), v)
    d = str(VERIF / ".deps")
    if d in sys.path:
        sys.path.remove(d)
    sys.path.append(d)
    os.environ.setdefault(GUARD, "1")


def guard_on() -> bool:
    return os.environ.get(GUARD, "") == "1"


def child_env(extra=None) -> dict:
    """Environment for shard / perturbation sub-processes."""
    env = dict(os.environ)
    env[GUARD] = "1"
    env.setdefault("PYTHONHASHSEED", "0")
    env["PYTHONDONTWRITEBYTECODE"] = "1"
    env["PIP_NO_INDEX"] = "1"
    if extra:
        env.update({k: str(v) for k, v in extra.items()})
    return env


def assert_repo_is_tree() -> str:
    """Import hdl21 and make sure it came from the tree under test.  Returns its path."""
    import hdl21

    path = str(Path(hdl21.__file__).resolve())
    if not path.startswith(str(REPO)):
        raise RuntimeError(f"hdl21 imported from {path}, expected under {REPO}")
    return path
