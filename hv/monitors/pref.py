"""
M-pref: contracts on the real `hdl21.prefix.Prefixed` operators.

Every call of  + - * neg abs scale int float hash  and of the six comparison operators made by *any*
workload in the process is judged against exact rational arithmetic (`fractions.Fraction`).
Conditions record-and-continue: they append to the Recorder and return True, so that one defect does not
mask the rest and so that the repository's own tests can run under the monitor.

Attached with icontract (named conditions, explicit error=) on the class attributes of the pydantic model;
instances resolve operators through the class, so no alias escapes.
"""

from __future__ import annotations

from decimal import Decimal
from fractions import Fraction
from typing import Any, Optional

import icontract

from .. import env

TOL = Fraction(1, 10**20)


class PrefContractBroken(Exception):
    pass


def exact(x: Any) -> Optional[Fraction]:
    """Exact value of a Prefixed / int / float / Decimal / numeric str, or None if not a finite number."""
    from hdl21.prefix import Prefixed, Prefix

    try:
        if isinstance(x, Prefixed):
            n = x.number
            if not n.is_finite():
                return None
            return Fraction(n) * Fraction(10) ** x.prefix.value
        if isinstance(x, Prefix):
            return Fraction(10) ** x.value
        if isinstance(x, bool):
            return None
        if isinstance(x, int):
            return Fraction(x)
        if isinstance(x, float):
            # the library documents conversion of floats through str(), i.e. the shortest repr
            return Fraction(Decimal(str(x)))
        if isinstance(x, Decimal):
            return Fraction(x) if x.is_finite() else None
        if isinstance(x, str):
            d = Decimal(x)
            return Fraction(d) if d.is_finite() else None
    except Exception:
        return None
    return None


def tolerance(a, b) -> Fraction:
    """The documented tolerance: 20 decimal places of the unit both operands are scaled to for the comparison, which the library
    documents (prefix._scale_to_smaller) as the SMALLER of the two prefixes - and never more than 1e-20 of the VALUES: two numbers
    written with large prefixes which differ by thousands are not within "the 1e-20 tolerance" (hunter round 7, C14-1)."""
    from hdl21.prefix import Prefixed

    exps = []
    for x in (a, b):
        exps.append(x.prefix.value if isinstance(x, Prefixed) else 0)  # (plain numbers enter as UNIT)
    return TOL * Fraction(10) ** min(exps + [0])


_state = {"rec": None, "attached": False}


def _rec():
    return _state["rec"]


def _desc(x) -> str:
    from hdl21.prefix import Prefixed

    if isinstance(x, Prefixed):
        return f"{x.number}*{x.prefix.name}"
    return repr(x)


def _binop(opname, pyop):
    def cond(self, other, result) -> bool:
        rec = _rec()
        if rec is None or result is NotImplemented:
            return True
        from hdl21.prefix import Prefixed

        ea, eb = exact(self), exact(other)
        if ea is None or eb is None:
            return True
        rec.count(f"M-pref.{opname}")
        want = pyop(ea, eb)
        got = exact(result) if isinstance(result, Prefixed) else None
        if got != want:
            rec.violation(
                f"arith-inexact:{opname}",
                f"{_desc(self)} {opname} {_desc(other)} returned {_desc(result)}, exact result is {want}",
                case={"kind": "binop", "op": opname, "a": case_of(self), "b": case_of(other)},
                got=str(got), want=str(want),
            )
        return True

    cond.__name__ = f"exact_{opname}"
    return cond


def case_of(x):
    from hdl21.prefix import Prefixed

    if isinstance(x, Prefixed):
        return {"number": str(x.number), "prefix": x.prefix.name}
    if isinstance(x, Decimal):
        return {"decimal": str(x)}
    return {"py": repr(x), "type": type(x).__name__}


def uncase(c):
    from hdl21.prefix import Prefixed, Prefix

    if "number" in c:
        return Prefixed(number=Decimal(c["number"]), prefix=Prefix[c["prefix"]])
    if "decimal" in c:
        return Decimal(c["decimal"])
    t = c["type"]
    if t == "int":
        return int(c["py"])
    if t == "float":
        return float(c["py"])
    if t == "str":
        return eval(c["py"])
    raise ValueError(c)


def _unop(opname, pyop):
    def cond(self, result) -> bool:
        rec = _rec()
        if rec is None:
            return True
        from hdl21.prefix import Prefixed

        ea = exact(self)
        if ea is None:
            return True
        rec.count(f"M-pref.{opname}")
        want = pyop(ea)
        got = exact(result) if isinstance(result, Prefixed) else None
        if got != want:
            rec.violation(
                f"arith-inexact:{opname}",
                f"{opname}({_desc(self)}) returned {_desc(result)}, exact result is {want}",
                case={"kind": "unop", "op": opname, "a": case_of(self)},
                got=str(got), want=str(want),
            )
        return True

    cond.__name__ = f"exact_{opname}"
    return cond


def scale_cond(self, prefix, result) -> bool:
    rec = _rec()
    if rec is None:
        return True
    from hdl21.prefix import Prefixed, Prefix

    ea = exact(self)
    if ea is None:
        return True
    rec.count("M-pref.scale")
    got = exact(result) if isinstance(result, Prefixed) else None
    bad = got != ea or (isinstance(prefix, Prefix) and result.prefix is not prefix)
    if bad:
        rec.violation(
            "arith-inexact:scale",
            f"({_desc(self)}).scale({getattr(prefix, 'name', prefix)}) returned {_desc(result)}; value must stay {ea}",
            case={"kind": "scale", "a": case_of(self), "to": getattr(prefix, "name", None)},
            got=str(got), want=str(ea),
        )
    return True


def int_cond(self, result) -> bool:
    rec = _rec()
    if rec is None:
        return True
    ea = exact(self)
    if ea is None:
        return True
    rec.count("M-pref.int")
    want = int(ea)  # truncation toward zero == integer part
    if type(result) is not int or result != want:
        rec.violation(
            "int-wrong", f"int({_desc(self)}) returned {result!r}, integer part is {want}",
            case={"kind": "int", "a": case_of(self)}, got=repr(result), want=want)
    return True


def float_cond(self, result) -> bool:
    rec = _rec()
    if rec is None:
        return True
    ea = exact(self)
    if ea is None:
        return True
    rec.count("M-pref.float")
    try:
        want = float(ea)  # Fraction -> float is correctly rounded (nearest, ties to even)
    except OverflowError:
        return True
    if type(result) is not float or result != want:
        rec.violation(
            "float-not-nearest", f"float({_desc(self)}) returned {result!r}, nearest float is {want!r}",
            case={"kind": "float", "a": case_of(self)}, got=repr(result), want=repr(want))
    return True


def _cmp(opname, pyop):
    def cond(self, other, result) -> bool:
        rec = _rec()
        if rec is None or result is NotImplemented:
            return True
        ea, eb = exact(self), exact(other)
        if ea is None or eb is None:
            return True
        rec.count(f"M-pref.cmp{opname}")
        if abs(ea - eb) > tolerance(self, other):
            want = pyop(ea, eb)
            if bool(result) != want:
                rec.violation(
                    f"cmp-wrong:{opname}",
                    f"({_desc(self)}) {opname} ({_desc(other)}) returned {result!r}; exact values {ea} vs {eb} "
                    f"differ by more than the tolerance, so it must be {want}",
                    case={"kind": "cmp", "a": case_of(self), "b": case_of(other)}, got=bool(result), want=want)
        return True

    cond.__name__ = f"cmp_{opname}"
    return cond


import operator as _op

_BINOPS = {"__add__": ("+", _op.add), "__radd__": ("+", _op.add), "__sub__": ("-", _op.sub),
           "__rsub__": ("r-", lambda a, b: b - a), "__mul__": ("*", _op.mul), "__rmul__": ("*", _op.mul)}
_UNOPS = {"__neg__": ("neg", _op.neg), "__abs__": ("abs", abs)}
_CMPS = {"__lt__": ("<", _op.lt), "__le__": ("<=", _op.le), "__eq__": ("==", _op.eq),
         "__ne__": ("!=", _op.ne), "__gt__": (">", _op.gt), "__ge__": (">=", _op.ge)}


def attach(rec) -> None:
    """Install the contracts on the real class (once per process) and point them at `rec`."""
    if not env.guard_on():
        raise RuntimeError("monitors are guarded by HDL21_VERIF=1")
    _state["rec"] = rec
    if _state["attached"]:
        return
    from hdl21.prefix import Prefixed, Prefix

    def wrap(name, cond):
        orig = Prefixed.__dict__[name]
        setattr(Prefixed, name, icontract.ensure(cond, error=PrefContractBroken)(orig))

    for name, (sym, f) in _BINOPS.items():
        wrap(name, _binop(sym, f))
    for name, (sym, f) in _UNOPS.items():
        wrap(name, _unop(sym, f))
    for name, (sym, f) in _CMPS.items():
        wrap(name, _cmp(sym, f))
    wrap("scale", scale_cond)
    wrap("__int__", int_cond)
    wrap("__float__", float_cond)

    # `number * Prefix` and `Prefixed * Prefix` go through Prefix.__rmul__/__mul__
    def prefix_mul_cond(self, other, result) -> bool:
        r = _rec()
        if r is None or result is NotImplemented or isinstance(other, Prefix):
            return True
        ea, eb = exact(self), exact(other)
        if ea is None or eb is None or isinstance(other, float):
            return True
        r.count("M-pref.prefix*")
        got = exact(result) if isinstance(result, Prefixed) else None
        if got != ea * eb:
            r.violation("arith-inexact:prefix*",
                        f"{_desc(other)} * {self.name} returned {_desc(result)}, exact result is {ea * eb}",
                        case={"kind": "prefixmul", "a": case_of(other), "p": self.name},
                        got=str(got), want=str(ea * eb))
        return True

    for name in ("__rmul__", "__mul__"):
        orig = Prefix.__dict__[name]
        setattr(Prefix, name, icontract.ensure(prefix_mul_cond, error=PrefContractBroken)(orig))
    _state["attached"] = True
