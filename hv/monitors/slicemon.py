"""
M-slice: contracts on the real index machinery.

* `hdl21.slice._slice_inner`            : reported width == number of bits Python selects (icontract.ensure)
* `hdl21.elab.helpers.width.width`      : width of any connectable == my own recursive width
* `hdl21.elab.passes.slices._resolve_sliceable` : bits(before) == bits(after)  (resolution keeps the bit sequence)

The expectations are computed by this module's own functions over the live objects (Python list semantics);
conditions record-and-continue.
"""

from __future__ import annotations

import icontract

from .. import env

_state = {"rec": None, "attached": False}


class SliceContractBroken(Exception):
    pass


def _rec():
    return _state["rec"]


def pyindex(bits: list, index):
    if isinstance(index, int):
        if not (-len(bits) <= index < len(bits)):
            return None
        return [bits[index]]
    return bits[index]


def mybits(obj, depth=0):
    """LSB-first bit list of a live connectable, by Python sequence semantics; None if undefined."""
    import hdl21 as h

    if depth > 12:
        return None
    if isinstance(obj, h.Signal):
        return [(id(obj), i) for i in range(obj.width)]
    if isinstance(obj, h.Slice):
        pb = mybits(obj.parent, depth + 1)
        if pb is None:
            return None
        try:
            return pyindex(pb, obj.index)
        except Exception:
            return None
    if isinstance(obj, h.Concat):
        out = []
        for p in obj.parts:
            pb = mybits(p, depth + 1)
            if pb is None:
                return None
            out += pb
        return out
    if isinstance(obj, (h.PortRef, h.BundleRef)):
        r = getattr(obj, "resolved", None)
        if r is not None and isinstance(r, (h.Signal, h.Slice, h.Concat)):
            return mybits(r, depth + 1)
        w = mywidth(obj)
        return None if w is None else [(id(obj), i) for i in range(w)]
    return None


_depth = [0]


def mywidth(obj):
    import hdl21 as h

    if isinstance(obj, h.Signal):
        return obj.width
    if isinstance(obj, h.PortRef):
        of = obj.inst.of
        ports = getattr(of, "ports", {})
        p = ports.get(obj.portname)
        if isinstance(p, h.Signal) and isinstance(obj.inst, h.InstanceArray):
            # a reference into an array stands for the port's whole connection (one port-width if broadcast or unconnected, n of them otherwise)
            conn = obj.inst.conns.get(obj.portname)
            if conn is None or isinstance(conn, h.NoConn):
                return p.width
            if _depth[0] > 8:
                return None
            _depth[0] += 1
            try:
                b = mybits(conn)
            finally:
                _depth[0] -= 1
            return None if b is None else len(b)
        return p.width if isinstance(p, h.Signal) else None
    if isinstance(obj, h.BundleRef):
        try:
            cur = obj.root().of
            for seg in obj.path():
                a = cur.get(seg)
                if isinstance(a, h.Signal):
                    return a.width
                if a is None:
                    return None
                cur = a.of
        except Exception:
            return None
        return None
    b = mybits(obj)
    return None if b is None else len(b)


def describe(obj, depth=0) -> str:
    import hdl21 as h

    if isinstance(obj, h.Signal):
        return f"Signal(w={obj.width})"
    if isinstance(obj, h.Slice):
        i = obj.index
        idx = str(i) if isinstance(i, int) else f"{'' if i.start is None else i.start}:{'' if i.stop is None else i.stop}" + (
            "" if i.step is None else f":{i.step}")
        return f"{describe(obj.parent, depth + 1)}[{idx}]"
    if isinstance(obj, h.Concat):
        return "Concat(" + ", ".join(describe(p, depth + 1) for p in obj.parts) + ")"
    if isinstance(obj, h.PortRef):
        return f"PortRef({obj.portname}, w={mywidth(obj)})"
    if isinstance(obj, h.BundleRef):
        return f"BundleRef({'.'.join(obj.path())}, w={mywidth(obj)})"
    return type(obj).__name__


def inner_cond(slize, result) -> bool:
    rec = _rec()
    if rec is None:
        return True
    pw = mywidth(slize.parent)
    if pw is None:
        return True
    rec.count("M-slice.inner")
    sel = pyindex(list(range(pw)), slize.index)
    n = 0 if sel is None else len(sel)
    if result.width != n:
        rec.violation("slice-width-wrong",
                      f"{describe(slize)} reports width {result.width} (top={result.top} bot={result.bot} step={result.step}); "
                      f"Python selects {n} bit(s) {sel}",
                      case={"kind": "width", "pw": pw, "index": idx_case(slize.index), "parent": "Signal"},
                      got=result.width, want=n)
    return True


def idx_case(index):
    return index if isinstance(index, int) else [index.start, index.stop, index.step]


def width_cond(conn, result) -> bool:
    rec = _rec()
    if rec is None or not isinstance(result, int):
        return True
    import hdl21 as h

    if not isinstance(conn, (h.Slice, h.Concat)):
        return True
    want = mywidth(conn)
    if want is None:
        return True
    rec.count("M-slice.width")
    if result != want:
        rec.violation("width-helper-wrong", f"width({describe(conn)}) returned {result}; Python list semantics give {want}",
                      case={"kind": "desc", "desc": describe(conn)}, got=result, want=want)
    return True


def attach(rec) -> None:
    if not env.guard_on():
        raise RuntimeError("monitors are guarded by HDL21_VERIF=1")
    _state["rec"] = rec
    if _state["attached"]:
        return
    import importlib

    import hdl21  # noqa

    hs = importlib.import_module("hdl21.slice")
    hw = importlib.import_module("hdl21.elab.helpers.width")
    hps = importlib.import_module("hdl21.elab.passes.slices")
    hct = importlib.import_module("hdl21.elab.passes.conntypes")

    hs._slice_inner = icontract.ensure(inner_cond, error=SliceContractBroken)(hs._slice_inner)

    wrapped_width = icontract.ensure(width_cond, error=SliceContractBroken)(hw.width)
    hw.width = wrapped_width
    for mod in (hps, hct):  # `from ..helpers.width import width` aliases
        if getattr(mod, "width", None) is not None:
            mod.width = wrapped_width

    orig_resolve = hps._resolve_sliceable

    def resolve_monitored(conn):
        before = mybits(conn)
        result = orig_resolve(conn)
        r = _rec()
        if r is not None and before:
            after = mybits(result)
            r.count("M-slice.resolve")
            if after != before:
                names = {}

                def nm(b):
                    return [f"{names.setdefault(s, 's%d' % len(names))}[{i}]" for s, i in b]

                r.violation("resolve-changes-bits",
                            f"resolving {describe(conn)} changed the selected bit sequence: {nm(before)} -> "
                            f"{nm(after) if after is not None else None} ({describe(result)})",
                            case={"kind": "desc", "desc": describe(conn)})
        return result

    hps._resolve_sliceable = resolve_monitored
    _state["attached"] = True
