"""
M-pass / M-name / M-quiet.

M-pass : `ElabPass.elaborate` (classmethod inherited by every pass) is wrapped: records the pass sequence and keeps
         a "pass running" depth that other monitors consult.
M-name : `hdl21.module._add` -- while a pass is running, binding a name that is already bound to a DIFFERENT object in
         `module.namespace` is a capture ("no existing signal or instance is replaced or shadowed").
M-quiet: after every top-level `Elaborator.elaborate` returns or raises, the per-pass `pending` sets and the generator
         cache's `pending` / `stack` are inspected (diagnostic for C08: explains *why* a later call misbehaves).
"""

from __future__ import annotations

from .. import env

_state = {"rec": None, "attached": False, "depth": 0, "pass": None, "label": None, "trace": None}


def set_label(label):
    _state["label"] = label


def take_failed():
    """Modules through whose elaboration frames an exception propagated since the last call (innermost first)."""
    f = _state.get("failed", [])
    _state["failed"] = []
    out = []
    for m in f:
        if not any(m is x for x in out):
            out.append(m)
    return out


def in_pass() -> bool:
    return _state["depth"] > 0


def all_passes():
    import importlib

    base = importlib.import_module("hdl21.elab.passes.base")
    out = []

    def rec(c):
        for s in c.__subclasses__():
            out.append(s)
            rec(s)

    rec(base.ElabPass)
    return out


def pending_report():
    """{pass name: [module names]} of non-empty pending sets, plus the generator cache."""
    import hdl21 as h

    out = {}
    for p in all_passes():
        c = p.CLASS_LEVEL_CACHE
        if c is not None and c.pending:
            out[p.__name__] = sorted(str(m.name) for m in c.pending)
    gc = h.Generator.Cache
    if gc.pending:
        out["Generator.pending"] = len(gc.pending)
    if gc.stack:
        out["Generator.stack"] = len(gc.stack)
    return out


def clear_pending():
    """Used by drivers between *independent* cases only (never inside a history that is being judged)."""
    import hdl21 as h

    for p in all_passes():
        if p.CLASS_LEVEL_CACHE is not None:
            p.CLASS_LEVEL_CACHE.pending.clear()
    h.Generator.Cache.pending.clear()
    del h.Generator.Cache.stack[:]


def attach(rec) -> None:
    if not env.guard_on():
        raise RuntimeError("monitors are guarded by HDL21_VERIF=1")
    _state["rec"] = rec
    if _state["attached"]:
        return
    import importlib

    import hdl21  # noqa

    base = importlib.import_module("hdl21.elab.passes.base")
    hmod = importlib.import_module("hdl21.module")
    helab = importlib.import_module("hdl21.elab.elab")

    orig_elab = base.ElabPass.__dict__["elaborate"].__func__

    def elaborate(cls, tops):
        r = _state["rec"]
        _state["depth"] += 1
        prev = _state["pass"]
        _state["pass"] = cls.__name__
        if r is not None:
            r.count("M-pass.pass-runs")
            if _state["trace"] is not None:
                _state["trace"].append(cls.__name__)
        try:
            return orig_elab(cls, tops)
        finally:
            _state["depth"] -= 1
            _state["pass"] = prev

    base.ElabPass.elaborate = classmethod(elaborate)

    # record the module stack through which an exception propagates (the "offending set" of a failed call)
    orig_emb = base.ElabPass.elaborate_module_base

    def elaborate_module_base(self, module):
        try:
            return orig_emb(self, module)
        except BaseException:
            _state.setdefault("failed", []).append(module)
            raise

    base.ElabPass.elaborate_module_base = elaborate_module_base

    orig_add = hmod._add

    def _add(module, val):
        r = _state["rec"]
        if r is not None and _state["depth"] > 0:
            r.count("M-name.adds-in-pass")
            name = getattr(val, "name", None)
            prior = module.namespace.get(name, None)
            snap = _state.get("designer", {}).get(id(module))
            if prior is None and snap is not None and snap[0] is module and name in snap[1] and snap[1][name] is not val:
                # the name was the designer's, for an array / pair / bundle that has been dissolved meanwhile
                r.violation(f"name-capture:{_state['pass']}",
                            f"[{_state['label']}] pass {_state['pass']} gives a new {type(val).__name__} in module {module.name} the name '{name}', "
                            f"which the designer gave a {type(snap[1][name]).__name__} (dissolved into its elements by now)",
                            case=_state.get("case"), name_kind=type(snap[1][name]).__name__, new_kind=type(val).__name__)
            if prior is not None and prior is not val:
                r.violation(f"name-capture:{_state['pass']}",
                            f"[{_state['label']}] pass {_state['pass']} binds the name '{name}' in module {module.name} to a new "
                            f"{type(val).__name__} although it already denotes a {type(prior).__name__} of the design",
                            case=_state.get("case"), name_kind=type(prior).__name__, new_kind=type(val).__name__)
        return orig_add(module=module, val=val)

    hmod._add = _add

    orig_top = helab.Elaborator.elaborate

    def snapshot(tops):
        """Designer names of every module reachable from `tops` (first sight only; the module is kept alive with its entry)."""
        d = _state.setdefault("designer", {})
        todo = list(tops) if isinstance(tops, (list, tuple)) else [tops]
        while todo:
            m = todo.pop()
            if not isinstance(m, hmod.Module) or (id(m) in d and d[id(m)][0] is m):
                continue
            if getattr(m, "_elaboration_started", False):
                continue
            d[id(m)] = (m, dict(object.__getattribute__(m, "namespace")))
            for coll in ("instances", "instarrays", "instbundles"):
                for i in object.__getattribute__(m, coll).values():
                    todo.append(getattr(i, "of", None))
        if len(d) > 20000:
            d.clear()

    def top_elaborate(self, top):
        r = _state["rec"]
        if r is not None and _state["depth"] == 0:
            try:
                snapshot(top)
            except Exception:
                pass
        try:
            return orig_top(self, top)
        finally:
            if r is not None and _state["depth"] == 0:
                r.count("M-quiet.evaluations")
                rep = pending_report()
                if rep:
                    r.count("M-quiet.pending-left-behind")
                    r.hist("pending_left_behind_by_pass", ",".join(sorted(rep)))

    helab.Elaborator.elaborate = top_elaborate
    _state["attached"] = True
