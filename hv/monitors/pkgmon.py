"""
M-pkg / M-rt: on-return oracles on EVERY successful `to_proto` in the process (all aliases rebound), so they
ride along with every workload.

M-pkg (C06): R4 well-formedness walk of the returned package (hv.pkgread.wellformed), `from_proto` accepts it,
             the vlsirtools spice and spectre netlisters accept it (not demanded for packages holding un-compiled
             `hdl21.primitives` devices, which vlsirtools refuses on purpose).
M-rt  (C11): to_proto(from_proto(P).modules in P's order, domain=P.domain) == P (protobuf equality); on inequality
             the witness is the first differing field path.
"""

from __future__ import annotations

import hashlib
import io

from .. import attach as att
from .. import env, pkgread

_state = {"rec": None, "attached": False, "busy": False, "wf": True, "rt": True, "seen": set(), "orig": None, "label": None}


def set_label(label):
    _state["label"] = label


def first_diff(a, b, path="pkg"):
    """First differing field path between two protobuf messages."""
    from google.protobuf.message import Message

    if type(a) is not type(b):
        return f"{path}: type {type(a).__name__} vs {type(b).__name__}"
    if isinstance(a, Message):
        for fd in a.DESCRIPTOR.fields:
            x, y = getattr(a, fd.name), getattr(b, fd.name)
            if fd.label == fd.LABEL_REPEATED:
                if len(x) != len(y):
                    names = lambda seq: [getattr(e, "name", None) or getattr(e, "portname", None) or getattr(e, "signal", None) or str(e)[:30] for e in seq]
                    return f"{path}.{fd.name}: {len(x)} vs {len(y)} entries ({names(x)[:8]} vs {names(y)[:8]})"
                for i, (p, q) in enumerate(zip(x, y)):
                    if p != q:
                        tag = getattr(p, "name", None) or getattr(p, "portname", None) or i
                        if isinstance(tag, Message):
                            tag = getattr(tag, "name", i)
                        if isinstance(p, Message):
                            return first_diff(p, q, f"{path}.{fd.name}[{tag}]")
                        return f"{path}.{fd.name}[{i}]: {p!r} vs {q!r}"
            elif fd.type == fd.TYPE_MESSAGE:
                if a.HasField(fd.name) != b.HasField(fd.name):
                    return f"{path}.{fd.name}: present {a.HasField(fd.name)} vs {b.HasField(fd.name)}"
                if x != y:
                    return first_diff(x, y, f"{path}.{fd.name}")
            elif x != y:
                return f"{path}.{fd.name}: {x!r} vs {y!r}"
        wa = [a.WhichOneof(o.name) for o in a.DESCRIPTOR.oneofs]
        wb = [b.WhichOneof(o.name) for o in b.DESCRIPTOR.oneofs]
        if wa != wb:
            return f"{path}: oneof {wa} vs {wb}"
        return f"{path}: differ (unknown field)"
    return f"{path}: {a!r} vs {b!r}"


def normalized(pkg):
    """The package with its `ext_modules` list sorted by qualified name.  The order of that list is an artefact of the
    exporter's traversal order (top-down for P, module-by-module for the re-export) and is not one of the things the
    property lists; everything else -- including every other repeated field's order -- is compared as is."""
    import vlsir.circuit_pb2 as vckt

    out = vckt.Package()
    out.CopyFrom(pkg)
    exts = sorted(out.ext_modules, key=lambda e: (e.name.domain, e.name.name))
    del out.ext_modules[:]
    out.ext_modules.extend(exts)
    return out


def has_uncompiled_primitives(pkg) -> bool:
    for m in pkg.modules:
        for i in m.instances:
            if i.module.WhichOneof("to") == "external" and i.module.external.domain == "hdl21.primitives":
                return True
    return False


def pkg_features(pkg):
    f = set()
    for m in pkg.modules:
        for i in m.instances:
            for c in i.connections:
                st = c.target.WhichOneof("stype")
                f.add("target-" + str(st))
            if i.parameters:
                f.add("params")
    if len(pkg.modules) > 1:
        f.add("multi-module")
    if pkg.ext_modules:
        f.add("ext-modules")
    return f


def on_package(pkg, rec, label):
    digest = hashlib.sha256(pkg.SerializeToString(deterministic=True)).hexdigest()[:16]
    if digest in _state["seen"]:
        rec.count("M-pkg.duplicate-package")
        return
    _state["seen"].add(digest)
    feats = pkg_features(pkg)
    nontrivial = len(pkg.modules) >= 2 or bool({"target-slice", "target-concat"} & feats)
    rec.case(key=digest, nontrivial=nontrivial,
             sample={"label": label, "modules": [m.name for m in pkg.modules][:6], "ext_modules": len(pkg.ext_modules),
                     "features": sorted(feats)} if rec.evaluations % 300 == 5 else None)
    for f in feats:
        rec.hist("package_features", f)
    case = {"kind": "package", "label": label, "package_b64": None}
    import base64

    def witness():
        if len(pkg.SerializeToString()) < 20000:
            case["package_b64"] = base64.b64encode(pkg.SerializeToString()).decode()
        return case

    import hdl21 as h

    if _state["wf"]:
        rec.count("M-pkg.wellformed")
        for cls, msg in pkgread.wellformed(pkg)[:4]:
            rec.violation(f"pkg-{cls}", f"[{label}] {msg}", case=witness(), label=label)
        # acceptance by from_proto
        try:
            h.from_proto(pkg)
            rec.count("M-pkg.from_proto-accepts")
        except Exception as e:
            rec.violation(f"pkg-from_proto-rejects:{type(e).__name__}", f"[{label}] from_proto rejects the package: {type(e).__name__}: {str(e)[:160]}",
                          case=witness(), label=label)
        if not has_uncompiled_primitives(pkg):
            for fmt in ("spice", "spectre"):
                try:
                    h.netlist(pkg, io.StringIO(), fmt=fmt)
                    rec.count(f"M-pkg.{fmt}-accepts")
                except Exception as e:
                    import re

                    reason = re.sub(r"`[^`]*`|\"[^\"]*\"|'[^']*'|\d+", "_", str(e).split("\n")[0].split(" for ")[0])[:50].strip()
                    rec.violation(f"pkg-{fmt}-netlister-rejects:{reason}",
                                  f"[{label}] the {fmt} netlister rejects the package: {type(e).__name__}: {str(e)[:160]}", case=witness(), label=label)
        else:
            rec.count("M-pkg.netlisting-skipped-uncompiled-primitives")
    if _state["rt"]:
        from hdl21.proto.importing import ProtoImporter

        rec.count("M-rt.attempted")
        try:
            imp = ProtoImporter(pkg)
            imp.import_()
            mods = list(imp.modules.values())
        except Exception as e:
            rec.violation(f"rt-import-raises:{type(e).__name__}", f"[{label}] from_proto raised {type(e).__name__}: {str(e)[:160]}", case=witness(), label=label)
            return
        try:
            again = _state["orig"](mods, domain=pkg.domain)
        except Exception as e:
            rec.violation(f"rt-reexport-raises:{type(e).__name__}", f"[{label}] re-export of the imported modules raised {type(e).__name__}: {str(e)[:160]}",
                          case=witness(), label=label)
            return
        rec.count("M-rt.compared")
        if again != pkg and normalized(again) == normalized(pkg):
            rec.count("M-rt.equal-up-to-ext_modules-order")
        if normalized(again) != normalized(pkg):
            d = first_diff(normalized(pkg), normalized(again))
            import re

            field = re.sub(r"\[[^\]]*\]", "[]", d.split(":")[0])
            rec.violation(f"rt-differs:{field}", f"[{label}] to_proto(from_proto(P)) != P; first difference (original vs round trip): {d}", case=witness(),
                          field=field, label=label)


def attach(rec, wellformed=True, roundtrip=True) -> None:
    if not env.guard_on():
        raise RuntimeError("monitors are guarded by HDL21_VERIF=1")
    _state["rec"] = rec
    _state["wf"], _state["rt"] = wellformed, roundtrip
    if _state["attached"]:
        return
    import importlib

    import hdl21  # noqa

    ex = importlib.import_module("hdl21.proto.exporting")
    orig = ex.to_proto
    _state["orig"] = orig

    def to_proto_monitored(*a, **k):
        pkg = orig(*a, **k)
        r = _state["rec"]
        if r is not None and not _state["busy"]:
            _state["busy"] = True
            try:
                on_package(pkg, r, _state["label"] or "to_proto")
            finally:
                _state["busy"] = False
        return pkg

    to_proto_monitored.__name__ = "to_proto"
    n = att.rebind(orig, to_proto_monitored)
    rec.extra["M-pkg.bindings_replaced"] = n
    _state["attached"] = True
