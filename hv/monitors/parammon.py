"""
M-param: contracts on the real parameter converters, judged by an independent decoder
(int64/string x 10^prefix as exact Fraction, double bit-equal, literal text-equal).

  hdl21.proto.exporting.export_param_value / export_prefixed   (rebound in every hdl21 module holding an alias)
  hdl21.scalar.to_scalar, hdl21.prefix.to_prefixed             (module globals; the pydantic validator keeps its own
                                                                reference, so the driver also calls them directly and the
                                                                boundary check covers the validator path)
Record-and-continue.
"""

from __future__ import annotations

import struct
from decimal import Decimal
from enum import Enum
from fractions import Fraction

import icontract

from .. import attach as att
from .. import env, pkgread

_state = {"rec": None, "attached": False}


class ParamContractBroken(Exception):
    pass


def _rec():
    return _state["rec"]


def same_float(a: float, b: float) -> bool:
    return struct.pack("<d", a) == struct.pack("<d", b)


def value_matches(given, decoded) -> str:
    """'' if `decoded` (pkgread.decode_param form) carries exactly the value `given`, else a reason."""
    import hdl21 as h

    if isinstance(given, h.Prefixed):
        if not (isinstance(decoded, tuple) and decoded[0] == "pref"):
            return f"expected a prefixed number, got {decoded!r}"
        want = Fraction(given.number) * Fraction(10) ** given.prefix.value
        if decoded[1] != want:
            return f"value {decoded[1]} != {want}"
        if decoded[2] != given.prefix.name:
            return f"prefix {decoded[2]} != {given.prefix.name}"
        if Decimal(decoded[3]) != given.number:
            return f"digits {decoded[3]} != {given.number}"
        if given.number != given.number.to_integral_value() and Decimal(decoded[3]).as_tuple() != given.number.as_tuple():
            return f"decimal digits {decoded[3]!r} are not the given digits {str(given.number)!r}"
        return ""
    if isinstance(given, h.Literal):
        return "" if decoded == ("lit", given.text) else f"expected literal {given.text!r}, got {decoded!r}"
    if isinstance(given, Enum):
        return "" if decoded == ("lit", given.value) else f"expected literal {given.value!r}, got {decoded!r}"
    if isinstance(given, bool):
        return "" if decoded == int(given) else f"got {decoded!r}"
    if isinstance(given, int):
        return "" if (type(decoded) is int and decoded == given) else f"expected int {given}, got {decoded!r}"
    if isinstance(given, float):
        return "" if (type(decoded) is float and same_float(decoded, given)) else f"expected double {given!r}, got {decoded!r}"
    if isinstance(given, str):
        return "" if decoded in (("lit", given), ("str", given)) else f"expected text {given!r}, got {decoded!r}"
    if isinstance(given, Decimal):
        if isinstance(decoded, tuple) and decoded[0] in ("lit", "str"):
            try:
                return "" if Decimal(decoded[1]) == given else f"text {decoded[1]!r} != {given}"
            except Exception:
                return f"text {decoded[1]!r} is not the number {given}"
        if isinstance(decoded, tuple) and decoded[0] == "pref":
            return "" if decoded[1] == Fraction(given) else f"value {decoded[1]} != {given}"
        return f"expected the number {given}, got {decoded!r}"
    return f"unsupported given type {type(given).__name__}"


def scalar_matches(given, result) -> str:
    """to_scalar / to_prefixed contract: result denotes the same decimal value / same text."""
    import hdl21 as h

    if isinstance(given, (h.Prefixed, h.Literal)):
        return "" if result is given or result == given else "not passed through"
    if isinstance(given, str):
        try:
            d = Decimal(given)
        except Exception:
            d = None
        if d is None:
            ok = isinstance(result, h.Literal) and result.text == given
            return "" if ok else f"non-numeric string must become Literal({given!r}), got {result!r}"
        if not d.is_finite():
            return ""
        if not isinstance(result, h.Prefixed):
            return f"numeric string {given!r} must become a Prefixed, got {result!r}"
        got = Fraction(result.number) * Fraction(10) ** result.prefix.value
        return "" if got == Fraction(d) else f"value {got} != {d}"
    if isinstance(given, bool):
        return ""
    if isinstance(given, int):
        if not isinstance(result, h.Prefixed):
            return f"got {result!r}"
        got = Fraction(result.number) * Fraction(10) ** result.prefix.value
        return "" if got == given else f"value {got} != {given}"
    if isinstance(given, float):
        if given != given or given in (float("inf"), float("-inf")):
            return ""
        if not isinstance(result, h.Prefixed):
            return f"got {result!r}"
        got = Fraction(result.number) * Fraction(10) ** result.prefix.value
        return "" if float(got) == given else f"float({got}) != {given!r}"
    if isinstance(given, Decimal):
        if not given.is_finite():
            return ""
        if not isinstance(result, h.Prefixed):
            return f"got {result!r}"
        got = Fraction(result.number) * Fraction(10) ** result.prefix.value
        return "" if got == Fraction(given) else f"value {got} != {given}"
    return ""


def casev(v):
    import hdl21 as h

    if isinstance(v, h.Prefixed):
        return {"t": "Prefixed", "number": str(v.number), "prefix": v.prefix.name}
    if isinstance(v, h.Literal):
        return {"t": "Literal", "text": v.text}
    if isinstance(v, Decimal):
        return {"t": "Decimal", "v": str(v)}
    if isinstance(v, Enum):
        return {"t": "Enum", "v": v.value}
    if isinstance(v, float):
        return {"t": "float", "v": v.hex()}
    if isinstance(v, (int, str)) or v is None:
        return {"t": type(v).__name__, "v": v}
    return {"t": type(v).__name__, "repr": repr(v)}


def uncasev(c):
    import hdl21 as h

    t = c["t"]
    if t == "Prefixed":
        return h.Prefixed(number=Decimal(c["number"]), prefix=h.Prefix[c["prefix"]])
    if t == "Literal":
        return h.Literal(c["text"])
    if t == "Decimal":
        return Decimal(c["v"])
    if t == "float":
        return float.fromhex(c["v"])
    if t in ("int", "str", "NoneType"):
        return c["v"]
    raise ValueError(c)


def epv_cond(val, result) -> bool:
    rec = _rec()
    if rec is None:
        return True
    rec.count("M-param.export_param_value")
    if val is None:
        if result is not None:
            rec.violation("param-none-exported", f"export_param_value(None) returned {result!r}", case={"kind": "value", "v": casev(val)})
        return True
    try:
        dec = pkgread.decode_param(result)
        why = value_matches(val, dec)
    except Exception as e:
        why = f"undecodable result: {e}"
    if why:
        rec.violation(f"param-value-changed:{type(val).__name__}", f"export_param_value({val!r}) -> {str(result).strip()!r}: {why}",
                      case={"kind": "value", "v": casev(val)})
    return True


def epref_cond(pref, result) -> bool:
    rec = _rec()
    if rec is None:
        return True
    import vlsir

    rec.count("M-param.export_prefixed")
    try:
        dec = pkgread.decode_param(vlsir.ParamValue(prefixed=result))
        why = value_matches(pref, dec)
    except Exception as e:
        why = f"undecodable result: {e}"
    if why:
        rec.violation("prefixed-value-changed", f"export_prefixed({pref!r}) -> {str(result).strip()!r}: {why}",
                      case={"kind": "value", "v": casev(pref)})
    return True


def to_scalar_cond(v, result) -> bool:
    rec = _rec()
    if rec is None:
        return True
    rec.count("M-param.to_scalar")
    why = scalar_matches(v, result)
    if why:
        rec.violation("to-scalar-changed-value", f"to_scalar({v!r}) -> {result!r}: {why}", case={"kind": "scalar", "v": casev(v)})
    return True


def to_prefixed_cond(v, result) -> bool:
    rec = _rec()
    if rec is None:
        return True
    rec.count("M-param.to_prefixed")
    if isinstance(v, str):
        try:
            Decimal(v)
        except Exception:
            return True
    why = scalar_matches(v, result)
    if why:
        rec.violation("to-prefixed-changed-value", f"to_prefixed({v!r}) -> {result!r}: {why}", case={"kind": "prefixed", "v": casev(v)})
    return True


def attach(rec) -> None:
    if not env.guard_on():
        raise RuntimeError("monitors are guarded by HDL21_VERIF=1")
    _state["rec"] = rec
    if _state["attached"]:
        return
    import importlib

    import hdl21  # noqa

    ex = importlib.import_module("hdl21.proto.exporting")
    sc = importlib.import_module("hdl21.scalar")
    pf = importlib.import_module("hdl21.prefix")
    n = 0
    n += att.rebind(ex.export_param_value, icontract.ensure(epv_cond, error=ParamContractBroken)(ex.export_param_value))
    n += att.rebind(ex.export_prefixed, icontract.ensure(epref_cond, error=ParamContractBroken)(ex.export_prefixed))
    n += att.rebind(sc.to_scalar, icontract.ensure(to_scalar_cond, error=ParamContractBroken)(sc.to_scalar))
    n += att.rebind(pf.to_prefixed, icontract.ensure(to_prefixed_cond, error=ParamContractBroken)(pf.to_prefixed))
    rec.extra["M-param.bindings_replaced"] = n
    _state["attached"] = True
