"""
R3 -- reader of the SPICE text written by vlsirtools' SpiceNetlister (through the real `h.netlist`):
a second, independent reading of the exported circuit that goes through the real netlister.
The package is consulted only for the *port order and widths of leaf cells* (external modules), which the
SPICE text does not carry.
"""

from __future__ import annotations

from typing import Any, Dict, List, Tuple

from .refsem import UF, Flat
from .pkgread import PRIM_PORTS, fmt_t

PREFIX_PORTS = {"r": ["p", "n"], "c": ["p", "n"], "l": ["p", "n"], "e": ["p", "n", "cp", "cn"], "g": ["p", "n", "cp", "cn"],
                "v": ["p", "n"], "i": ["p", "n"]}


class SpiceError(Exception):
    pass


def parse(text: str) -> Dict[str, dict]:
    """{subckt: {"ports": [netname...], "insts": [(prefix, name, [nets], target)]}}"""
    subckts: Dict[str, dict] = {}
    cur = None
    lines = [l.rstrip() for l in text.splitlines()]
    i = 0
    while i < len(lines):
        l = lines[i].strip()
        i += 1
        if not l or l.startswith("*"):
            continue
        up = l.upper()
        if up.startswith(".SUBCKT"):
            name = l.split()[1]
            cur = {"ports": [], "insts": []}
            subckts[name] = cur
            # port line(s)
            while i < len(lines) and lines[i].strip().startswith("+"):
                cur["ports"] += lines[i].strip()[1:].split()
                i += 1
            continue
        if up.startswith(".ENDS"):
            cur = None
            continue
        if l.startswith(".") or l.startswith("+"):
            continue
        if cur is None:
            continue
        # an instance: name line, then '+' lines: nets, target, [params]
        prefix, iname = l[0].lower(), l[1:]
        plus: List[str] = []
        while i < len(lines) and (lines[i].strip().startswith("+") or lines[i].strip().startswith("*")):
            s = lines[i].strip()
            i += 1
            if s.startswith("*"):
                if "No ports" in s:
                    plus.append("")
                continue
            plus.append(s[1:].strip())
        nets = plus[0].split() if plus else []
        target = plus[1].split()[0] if len(plus) > 1 and plus[1] else ""
        cur["insts"].append((prefix, iname, nets, target))
    return subckts


def flatten(text: str, pkg) -> Flat:
    subckts = parse(text)
    top = pkg.modules[-1].name.split(".")[-1]
    if top not in subckts:
        # names with characters the netlister rewrites: fall back to the last subckt
        top = list(subckts)[-1]
    exts = {}
    for e in pkg.ext_modules:
        sw = {s.name: s.width for s in e.signals}
        exts[e.name.name] = [(p.signal, sw[p.signal]) for p in e.ports]
    # module port lists (name, width) from the package, keyed by the unqualified name
    modports = {}
    for m in pkg.modules:
        sw = {s.name: s.width for s in m.signals}
        modports[m.name.split(".")[-1]] = [(p.signal, sw[p.signal]) for p in m.ports]

    def bits_msb(ports: List[Tuple[str, int]]):
        return [(p, i) for p, w in ports for i in reversed(range(w))]

    g = UF()
    out = Flat()

    def walk(name: str, path: tuple):
        sc = subckts[name]
        for prefix, iname, nets, target in sc["insts"]:
            p2 = path + (iname,)
            if prefix == "x" and target in subckts:
                child = subckts[target]
                if len(child["ports"]) != len(nets):
                    raise SpiceError(f"{name}.{iname}: {len(nets)} nets for {len(child['ports'])} ports of {target}")
                for net, cport in zip(nets, child["ports"]):
                    g.union((path, net), (p2, cport))
                walk(target, p2)
            else:
                if prefix == "x":
                    if target not in exts:
                        raise SpiceError(f"{name}.{iname}: unknown cell {target}")
                    pb = bits_msb(exts[target])
                else:
                    if prefix not in PREFIX_PORTS:
                        raise SpiceError(f"{name}.{iname}: unknown element type {prefix}")
                    pb = [(p, 0) for p in PREFIX_PORTS[prefix]]
                if len(pb) != len(nets):
                    raise SpiceError(f"{name}.{iname}: {len(nets)} nets for {len(pb)} terminal bits")
                out.leaves[p2] = (prefix, target)
                for net, (p, b) in zip(nets, pb):
                    g.union(("L", p2, p, b), (path, net))

    walk(top, ())
    tb = bits_msb(modports.get(top, []))
    if len(tb) != len(subckts[top]["ports"]):
        raise SpiceError(f"top {top}: {len(subckts[top]['ports'])} port nets for {len(tb)} port bits")
    out.ports = modports.get(top, [])
    for net, (p, b) in zip(subckts[top]["ports"], tb):
        g.union(("P", p, b), ((), net))
    groups: Dict[Any, set] = {}
    for node in list(g.p.keys()):
        if node[0] in ("L", "P"):
            groups.setdefault(g.find(node), set()).add(node)
    out.nets = frozenset(frozenset(s) for s in groups.values())
    return out


def compare_nets(ref: Flat, obs: Flat, max_diffs: int = 5) -> List[str]:
    diffs: List[str] = []
    if set(ref.leaves) != set(obs.leaves):
        a, b = set(ref.leaves) - set(obs.leaves), set(obs.leaves) - set(ref.leaves)
        diffs.append(f"leaf instances differ: missing {sorted(a)[:3]}, unexpected {sorted(b)[:3]}")
        return diffs
    if ref.nets != obs.nets:
        rmap = {t: n for n in ref.nets for t in n}
        omap = {t: n for n in obs.nets for t in n}
        for t in sorted(set(rmap) | set(omap), key=str):
            if t not in omap or t not in rmap:
                diffs.append(f"terminal {fmt_t(t)} present on one side only")
            elif rmap[t] != omap[t]:
                extra = sorted(map(fmt_t, omap[t] - rmap[t]))
                lost = sorted(map(fmt_t, rmap[t] - omap[t]))
                diffs.append(f"net of {fmt_t(t)}: shorted to {extra[:4]}" if extra else f"net of {fmt_t(t)}: split from {lost[:4]}")
            if len(diffs) >= max_diffs:
                break
    return diffs
