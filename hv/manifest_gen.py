"""Regenerates /verif/MANIFEST.json from the table below (keeps it schema-valid at all times)."""
import json
from pathlib import Path

VERIF = Path(__file__).resolve().parent.parent
BASE_OFF = ("cd /repo && env -u HDL21_VERIF /venv/bin/python -m pytest -ra -q -p no:cacheprovider --timeout=900 "
            "--continue-on-collection-errors")

# property -> (category, technique, level text, level note, design ref)
CHECKS = {
    "C14": ("exploration",
            "runtime contracts (icontract) on the real Prefixed operators judged against exact Fraction arithmetic, "
            "plus an order-axiom monitor over all 441 prefix pairs",
            "Every call of + - * neg abs scale int float hash and of the six comparisons that the workload provokes is "
            "judged online against exact rational arithmetic; the driver checks never-raises, trichotomy, coherence, "
            "antisymmetry and value=>hash over all 21x21 prefix pairs x adversarial and random mantissas. Held on the "
            "executions observed, not a proof.",
            "trusts fractions.Fraction / decimal of CPython as the exact reference; tolerance read in the most lenient unit",
            "DESIGN.md §3 C14"),
}

CHECKS.update({
    "C01": ("exploration",
            "reference-model oracle: an independent bit-level semantics of each generated design (R1) compared with two "
            "independent readings of the real output (VLSIR package reader R2, SPICE text reader R3)",
            "Every generated design (exhaustive kernel family of connection-expression shapes, structural kernels, seeded "
            "random hierarchies) is built with the real library, exported, read back bit-for-bit and compared with an "
            "independent meaning of the source design; leaf identity and parameters are checked with unique tags. Held on "
            "the designs generated, which are bounded (widths <= 5, depth <= 5).",
            "trusts hv.refsem (R1) as the meaning of a design and the netlisters' MSB-first reading of a package; "
            "rejections of valid designs are counted, not alarmed",
            "DESIGN.md §3 C01"),
    "C03": ("exploration",
            "runtime contracts on _slice_inner / width() / _resolve_sliceable plus a boundary oracle comparing .width and the "
            "exported bits with Python's own list slicing, over an exhaustive index box",
            "Exhaustive boxes of (parent kind, width, index) against Python list slicing as oracle, three-valued per case "
            "(accepted-correct / rejected / wrong); contracts ride on every slice computed anywhere in the process.",
            "Python's list slicing is the specification; acceptance only demanded where the statement demands it",
            "DESIGN.md §3 C03"),
    "C18": ("exploration",
            "invariant hook on the real Module/Bundle setattr/add evaluated after every operation of enumerated edit "
            "histories; differential export of final states; direct probes of the rejection clauses",
            "All edit histories up to length 3 (4 on a reduced alphabet in thorough) over a 3-name alphabet and every attribute "
            "kind, the namespace/view/get/getattr/parent invariant asserted after each operation; sampled final states are "
            "exported and compared with a fresh module holding only the final mapping.",
            "values are always fresh objects; invariant checked at quiescent points only",
            "DESIGN.md §3 C18"),
})

CHECKS.update({
    "C13": ("exploration",
            "runtime contracts (icontract) on export_param_value / export_prefixed / to_scalar / to_prefixed judged by an "
            "independent ParamValue decoder, plus boundary comparison of exported Instance.parameters with the given values",
            "Every primitive of hdl21.primitives and dict-/paramclass-typed external modules are instantiated with generated "
            "values of every accepted type (ints to 64 bits, floats incl. subnormals, 1-40 digit Decimals, numeric / arbitrary "
            "strings, Literals, enums, None, Prefixed x 21 prefixes), exported, decoded exactly and compared.",
            "trusts hv.pkgread.decode_param (exact Fraction / bit-equal doubles); float Scalars judged by nearest-double equality",
            "DESIGN.md §3 C13"),
    "C06": ("exploration",
            "on-return monitor on every successful to_proto (all aliases rebound): independent well-formedness walk of the package "
            "plus acceptance by from_proto and the real spice/spectre netlisters",
            "M-pkg judges every package produced while driving design generators, the examples, built-in generators, PDK-compiled "
            "designs and the parameter space; closure (names, definition-before-use, port coverage, widths, ranges) is checked by "
            "an independent reader.",
            "per-kind name uniqueness; netlister acceptance not demanded for un-compiled hdl21.primitives",
            "DESIGN.md §3 C06"),
    "C11": ("exploration",
            "on-return monitor on every successful to_proto: re-import with from_proto, re-export, protobuf equality with "
            "first-differing-field witness",
            "M-rt round-trips every package of the same corpora as C06 and compares field by field (order of every repeated field "
            "included, except the traversal-dependent order of the ext_modules list).",
            "ext_modules list compared as a set of definitions (its order is an artefact of export traversal, see DESIGN §5)",
            "DESIGN.md §3 C11"),
})

CHECKS.update({
    "C05": ("exploration",
            "invariant hook on module._add during passes (no rebinding of a live name) plus reference-model oracle up to a "
            "tag-based bijection of leaf instances, over adversarially renamed designs",
            "Every name the elaborator would invent (predicted from the design) is given to a designer signal / instance / bundle / "
            "named no-connect, declared before or after the colliding construct; M-name asserts at the mechanism that no live "
            "name is rebound, and the exported circuit must equal the design's meaning regardless of the names chosen.",
            "only names derivable from today's naming rules (+ trailing underscores) are tried; raising is an accepted resolution",
            "DESIGN.md §3 C05"),
})

CHECKS.update({
    "C02": ("fault_enumeration",
            "fault injection at the design level: every single-fault mutation of valid designs at every site, judged by "
            "return-vs-raise of elaborate / to_proto / netlist on fresh copies and on retries over the same objects",
            "19 fault classes x every connection site (expression kind x instance kind x depth) of structural and random base "
            "designs; the reference validity judge R1 confirms each mutant is ill-formed; any returned package/netlist is a "
            "violation, including on a retry or on exporting a module that holds the fault after a first failure.",
            "single faults; exception type unconstrained; for name clashes only the exporting calls are demanded to raise",
            "DESIGN.md §3 C02"),
})

CHECKS.update({
    "C10": ("exploration",
            "reference-model oracle: the documented flattening rule evaluated on the spec vs the ports of the exported module, plus "
            "the C01 partition oracle on both sides of every bundle connection",
            "Seeded bundle definition trees (depth <= 3, fan-out <= 3) with every leaf kind, width, flip placement (constructor flag "
            "and flipped()), role assignment and connection form; exported port (name, width, direction) compared with the rule; "
            "internal instances must yield signals, not ports; coverage matrix reported.",
            "role of the innermost holding instance decides role-carrying leaves; port order not constrained",
            "DESIGN.md §3 C10"),
    "C19": ("exploration",
            "reference-model oracle: the chain / pass-through of the statement written as a reference design (R1) vs R2 of the exported "
            "Series / MosStack / Wrapper module, unit indices preserved",
            "All n in 1..N x unit cells (primitives, external modules incl. permuted d/g/s/b order and a port named i, modules with bus "
            "and bundle ports) x every ordered equal-width port pair by name and by Signal; enumerated completely.",
            "equal-width series pairs only; a bundle port as series port must be rejected",
            "DESIGN.md §3 C19"),
    "C16": ("exploration",
            "differential oracle through one independent reader: leaf-level partition of to_proto(m) vs to_proto(flatten(m)), leaves "
            "matched by unique tag",
            "Seeded hierarchies (depth <= 5, shared sub-modules, buses, pass-through ports, external and primitive leaves at every depth, "
            "zero-port cells, ':'-colliding names); flat module must hold only leaves, one per device, same ports, same partition.",
            "must-flatten domain = whole-signal connections; slice/concat designs may be rejected",
            "DESIGN.md §3 C16"),
})

CHECKS.update({
    "C04": ("exploration",
            "history + executable sequential model: connection operations recorded at the API boundary, the exported circuit (R2) "
            "compared with the reference meaning (R1) of the final port->connection mapping only",
            "Every (port, connectable kind) sequence up to length 3 and seeded histories up to length 8/12 over call / assignment / "
            "connect / replace / disconnect on single instances, arrays and pairs, including other instances that refer to the "
            "target's ports while it is being re-connected; every kind appears as replaced and as replacing object.",
            "register-per-port model; valid final mappings only; connectables are not edited after connecting",
            "DESIGN.md §3 C04"),
})

CHECKS.update({
    "C07": ("exploration",
            "history + executable model ('the package is a function of the design'): call histories replayed on one build, every "
            "produced package compared with a fresh build (and a fresh process for a sample) that sees only that call",
            "Per design DAG (hand-written 5-module DAGs, implicit-bundle kernels, seeded random DAGs): every permutation of "
            "single-module elaborate calls over every subset, every ordered subset as one list call, seeded mixes of elaborate / "
            "to_proto / netlist with repeats, and late-parent histories where parents are constructed after their children were "
            "elaborated; intermediate and final, single and list exports are all compared.",
            "same DesignSpec + same uid = same design; connection order inside an instance is normalised (C12's subject)",
            "DESIGN.md §3 C07"),
})

CHECKS.update({
    "C08": ("fault_enumeration",
            "fault injection (bomb passes through the public Elaborator, real design faults, raising generator bodies, "
            "sys.monitoring failpoints at statement lines of the rewriting passes) + offline checker of a trace specification "
            "over the boundary log of later calls",
            "Every (pass position x module) of two base designs, 9 real fault kinds, generator failures (direct and nested) and "
            "failpoints (70 sampled in quick, every line in thorough) followed by every continuation: retry unchanged, export "
            "the offending modules alone, repair and retry, an unrelated design, a new parent sharing sub-modules. The offending "
            "set is observed by a hook on elaborate_module_base, not assumed.",
            "error signature strips the hierarchy-path prefix; fresh(D) is an in-process fresh build (cross-checked by C07)",
            "DESIGN.md §3 C08"),
})

CHECKS.update({
    "C09": ("exploration",
            "body counters + boundary recorder of generator calls with an offline checker (functional / injective / stable / "
            "exportable) and a cross-process comparison of the call->name map under different PYTHONHASHSEED and call orders",
            "A seeded program over 9 generators covering every param-class shape and call form, recursion and hand-over of another "
            "generator's module; every pair of calls of one generator is checked for memoisation and name injectivity, names are "
            "re-read at the end, all results are instantiated in one exported parent, and the program is re-run in fresh "
            "processes with shuffled order.",
            "equality = == on validated param-class instances; exported name = qualname(module)",
            "DESIGN.md §3 C09"),
})

CHECKS.update({
    "C12": ("exploration",
            "offline checker over per-process logs of output digests, the configuration (PYTHONHASHSEED, unrelated allocation and "
            "elaboration beforehand, GC) being the variable; disagreements are re-run with full output to name the first differing field",
            "The same design program (bundle / port-reference / array / pair / no-connect kernels incl. one bundle feeding several "
            "ports of an instance, seeded random hierarchies, built-in generators, a 150-call generator program) is run in 6 (quick) "
            "/ 16 (thorough) fresh processes; sha256 of the deterministic package bytes and of the spice / spectre / verilog text "
            "must agree for every design.",
            "one machine and interpreter build; allocation history approximated by seeded junk work",
            "DESIGN.md §3 C12"),
})

CHECKS.update({
    "C15": ("exploration",
            "contract with snapshot on the real HierarchyWalker.visit_instance (only `of` may change) plus table-driven boundary "
            "oracles: before/after package equality modulo targets, selection and sizing judged by the PDK's own tables, R4 + "
            "netlisting of the compiled package, idempotence, compile forms, descriptive errors",
            "Every entry of every device table of the four PDKs x four size patterns, at depth 1 and 3 with a shared sub-module and "
            "unmapped neighbours, compiled once and twice; all 84 type/family/threshold triples per PDK; the five forms of "
            "hdl21.pdk.compile; logic cells instantiated with all ports connected and netlisted (320 sampled in quick, all ~3100 in "
            "thorough).",
            "the PDK tables are the selection / sizing oracle; descriptive error = RuntimeError/ValueError with a message",
            "DESIGN.md §3 C15"),
})

CHECKS.update({
    "C17": ("exploration",
            "reference-model oracle: an independent translation of the Sim spec to a plain dict vs a decoder of the returned "
            "vlsir.spice.SimInput, with a boundary recorder on the real sim.to_proto",
            "Seeded Sim specs over every attribute type, nesting to depth 3, every Scalar form of every numeric field, the five "
            "SaveTarget forms, three construction styles, lists sharing / not sharing testbenches, and testbenches violating the "
            "one-scalar-port interface (incl. bundle ports that only appear after elaboration).",
            "numeric expectation = nearest double of the exact decimal value; unnamed analyses need distinct names only",
            "DESIGN.md §3 C17"),
})

NOT_APPLICABLE = {}


def main():
    props = [json.loads(l)["id"] for l in (VERIF / "properties.jsonl").read_text().splitlines() if l.strip()]
    checks = []
    for pid in props:
        if pid not in CHECKS:
            continue
        cat, tech, text, note, ref = CHECKS[pid]
        checks.append({
            "property_id": pid,
            "quick_cmd": f"./check {pid} --tier quick",
            "thorough_cmd": f"./check {pid} --tier thorough",
            "evidence_file": f"/verif/evidence/{pid}.json",
            "replay_cmd_template": f"./check {pid} --replay {{path}}",
            "engine": "hv",
            "level_claimed": {"category": cat, "text": text, "design_ref": ref},
            "level_note": note,
            "technique": tech,
        })
    na = [{"property_id": p, "reason": NOT_APPLICABLE.get(p, "check not built yet in this round (planned; see DESIGN.md §6)")}
          for p in props if p not in CHECKS]
    man = {
        "version": 1,
        "setup_cmd": "./setup.sh",
        "hooks": {
            "guard": "HDL21_VERIF",
            "enable": "monitors are attached at run time by the harness (class/function rebinding, icontract, "
                      "sys.monitoring) and only when HDL21_VERIF=1, which ./check sets; /repo carries no hook code",
            "baseline_off_cmd": BASE_OFF,
            "source_commits": [],
            "add_only": True,
        },
        "engines": [{"name": "hv", "path": "/verif/hv", "serves_properties": [c["property_id"] for c in checks],
                     "kind_free_text": "runtime monitoring: contracts and invariant hooks attached to the real code, "
                                       "boundary recorders with offline history checkers, reference-model oracles, "
                                       "failpoints; seeded and bounded-exhaustive workloads"}],
        "checks": checks,
        "not_applicable": na,
        "notes": "Verdicts are three-valued: exit 0 held on what was observed, exit 1 VIOLATION, exit 3 INCONCLUSIVE "
                 "(deciding monitor not reached / thresholds missed). Known findings: /verif/known_findings.json.",
    }
    (VERIF / "MANIFEST.json").write_text(json.dumps(man, indent=1) + "\n")
    try:
        import sys
        sys.path.append(str(VERIF / ".deps"))
        import jsonschema
        jsonschema.validate(man, json.loads((VERIF / "hv/schemas/MANIFEST.schema.json").read_text()))
        print("MANIFEST.json valid;", len(checks), "checks,", len(na), "not_applicable")
    except ImportError:
        print("MANIFEST.json written (jsonschema unavailable)")


if __name__ == "__main__":
    main()
