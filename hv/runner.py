"""
Check runner: three-valued verdicts, evidence, known findings, replay files, sharding.

A check module ``hv.checks.cXX`` provides

    LEVEL        one of the EVIDENCE.schema levels
    RULE         how cases are generated and what makes one distinct / non-trivial
    ASSUMPTIONS  list of strings
    run(ctx, rec)              drive the workload, feed the Recorder
    replay(ctx, rec, case)     re-execute exactly one recorded case       (optional)
    shards(ctx) -> int         number of shards of the thorough tier       (optional)
    MIN_EVALS / MIN_NONTRIVIAL thresholds below which the run is INCONCLUSIVE (optional)
    REQUIRED_COUNTERS          monitor counters that must be > 0, else INCONCLUSIVE (optional)
"""

from __future__ import annotations

import argparse
import hashlib
import importlib
import json
import os
import random
import subprocess
import sys
import time
import traceback
from collections import Counter
from dataclasses import dataclass, field
from pathlib import Path
from typing import Any, Dict, List, Optional

from . import env

EXIT_HELD, EXIT_VIOLATION, EXIT_INCONCLUSIVE = 0, 1, 3


def jhash(obj: Any) -> str:
    return hashlib.sha256(json.dumps(obj, sort_keys=True, default=str).encode()).hexdigest()[:16]


@dataclass
class Ctx:
    prop: str
    tier: str = "quick"
    seed: int = 0
    shard: int = 0
    nshards: int = 1
    replay: Optional[str] = None

    def rng(self, salt: str = "") -> random.Random:
        return random.Random(f"{self.prop}/{self.seed}/{self.shard}/{self.nshards}/{salt}")

    @property
    def quick(self) -> bool:
        return self.tier == "quick"


@dataclass
class Recorder:
    evaluations: int = 0
    nontrivial: set = field(default_factory=set)
    samples: List[Any] = field(default_factory=list)
    counters: Counter = field(default_factory=Counter)
    violations: List[Dict[str, Any]] = field(default_factory=list)
    inconclusive: List[str] = field(default_factory=list)
    extra: Dict[str, Any] = field(default_factory=dict)
    exhaustive: Optional[bool] = None
    max_samples: int = 6
    max_violations_kept: int = 400

    # ---- feeding -------------------------------------------------------------------------
    def case(self, key: Any = None, nontrivial: bool = True, sample: Any = None) -> None:
        """Count one evaluated case.  `key` identifies it for distinctness."""
        self.evaluations += 1
        if nontrivial and key is not None:
            self.nontrivial.add(key if isinstance(key, str) else jhash(key))
        if sample is not None and len(self.samples) < self.max_samples:
            self.samples.append(sample)

    def count(self, name: str, n: int = 1) -> None:
        self.counters[name] += n

    def violation(self, sig: str, what: str, case: Any = None, **witness) -> None:
        """Record-and-continue.  `sig` names the *mechanism* (never a seed or hash)."""
        self.counters["violations_recorded"] += 1
        self.counters["viol:" + sig] += 1
        if len(self.violations) < self.max_violations_kept or not any(v["sig"] == sig for v in self.violations):
            self.violations.append({"sig": sig, "what": what, "case": case, "witness": witness})

    def hist(self, name: str, key: Any) -> None:
        h = self.extra.setdefault(name, {})
        k = str(key)
        h[k] = h.get(k, 0) + 1

    # ---- (de)serialisation for shards ----------------------------------------------------------
    def dump(self) -> dict:
        return {
            "evaluations": self.evaluations,
            "nontrivial": sorted(self.nontrivial),
            "samples": self.samples,
            "counters": dict(self.counters),
            "violations": self.violations,
            "inconclusive": self.inconclusive,
            "extra": self.extra,
            "exhaustive": self.exhaustive,
        }

    def merge(self, d: dict) -> None:
        self.evaluations += d["evaluations"]
        self.nontrivial.update(d["nontrivial"])
        for s in d["samples"]:
            if len(self.samples) < self.max_samples:
                self.samples.append(s)
        self.counters.update(d["counters"])
        self.violations.extend(d["violations"])
        self.inconclusive.extend(d["inconclusive"])
        for k, v in d["extra"].items():
            if isinstance(v, dict) and all(isinstance(x, int) for x in v.values()):
                h = self.extra.setdefault(k, {})
                for kk, vv in v.items():
                    h[kk] = h.get(kk, 0) + vv
            elif isinstance(v, list):
                self.extra.setdefault(k, [])
                for x in v:
                    if x not in self.extra[k] and len(self.extra[k]) < 200:
                        self.extra[k].append(x)
            else:
                self.extra.setdefault(k, v)
        if d["exhaustive"] is not None:
            self.exhaustive = d["exhaustive"] if self.exhaustive is None else (self.exhaustive and d["exhaustive"])


# ------------------------------------------------------------------------------------------------
# known findings


def load_findings() -> List[dict]:
    p = env.VERIF / "known_findings.json"
    if not p.exists():
        return []
    return json.loads(p.read_text()).get("findings", [])


def match_finding(prop: str, v: dict, findings: List[dict]) -> Optional[dict]:
    """A violation is a *known finding* only if an entry with status 'known' names its property and its
    mechanism signature, and every key of the entry's `where` equals the violation's witness value."""
    for f in findings:
        if f.get("property") != prop or f.get("status") != "known":
            continue
        if f.get("sig") != v["sig"]:
            continue
        where = f.get("where") or {}
        if all(v["witness"].get(k) == val for k, val in where.items()):
            return f
    return None


# ------------------------------------------------------------------------------------------------


def write_evidence(ctx: Ctx, mod, rec: Recorder, wall: float, nviol: int, known_hit: Dict[str, int]) -> Path:
    cov = {
        "evaluations": rec.evaluations,
        "distinct_nontrivial": len(rec.nontrivial),
        "rule": getattr(mod, "RULE", ""),
        "samples": rec.samples[: rec.max_samples] or ["<no case was evaluated>"],
        "monitor_evaluations": {k: v for k, v in sorted(rec.counters.items()) if not k.startswith("viol:")},
        "violation_signatures": {k[5:]: v for k, v in sorted(rec.counters.items()) if k.startswith("viol:")},
        "known_findings_hit": known_hit,
        "inconclusive_reasons": rec.inconclusive,
        "shards": ctx.nshards if ctx.tier == "thorough" else 1,
    }
    if getattr(mod, "LEVEL", "exploration") == "other":
        cov["explanation"] = getattr(mod, "EXPLANATION", getattr(mod, "RULE", ""))
    if rec.exhaustive is not None:
        cov["exhaustive"] = bool(rec.exhaustive)
    for k, v in rec.extra.items():
        cov[k] = v
    ev = {
        "property_id": ctx.prop,
        "tier": ctx.tier,
        "seed": ctx.seed,
        "level": getattr(mod, "LEVEL", "exploration"),
        "coverage": cov,
        "assumptions": list(getattr(mod, "ASSUMPTIONS", [])),
        "wall_s": round(wall, 2),
        "violations": nviol,
    }
    try:
        import jsonschema

        schema = json.loads((env.VERIF / "hv" / "schemas" / "EVIDENCE.schema.json").read_text())
        jsonschema.validate(ev, schema)
    except ImportError:
        pass
    out = Path(os.environ.get("HV_EVIDENCE_DIR", str(env.VERIF / "evidence"))) / f"{ctx.prop}.json"
    out.parent.mkdir(parents=True, exist_ok=True)
    out.write_text(json.dumps(ev, indent=1, sort_keys=True, default=str) + "\n")
    return out


def run_sharded(ctx: Ctx, mod, rec: Recorder, n: int) -> None:
    scratch = env.VERIF / ".scratch"
    scratch.mkdir(exist_ok=True)
    procs = []
    par = min(n, int(os.environ.get("HV_JOBS", "16")))
    pending = list(range(n))
    running: List[tuple] = []
    timeout = float(os.environ.get("HV_SHARD_TIMEOUT", "3000"))
    while pending or running:
        while pending and len(running) < par:
            i = pending.pop(0)
            out = scratch / f"{ctx.prop}.{ctx.tier}.{os.getpid()}.{i}.json"
            cmd = [env.PY, "-m", "hv.runner", ctx.prop, "--tier", ctx.tier, "--seed", str(ctx.seed),
                   "--shard", f"{i}/{n}", "--json-out", str(out)]
            p = subprocess.Popen(cmd, cwd=str(env.VERIF), env=env.child_env(), stdout=subprocess.PIPE,
                                 stderr=subprocess.STDOUT, text=True)
            running.append((i, p, out, time.time()))
        still = []
        for (i, p, out, t0) in running:
            rc = p.poll()
            if rc is None:
                if time.time() - t0 > timeout:
                    p.kill()
                    rec.inconclusive.append(f"shard {i}/{n} exceeded the {timeout:.0f}s watchdog")
                else:
                    still.append((i, p, out, t0))
                continue
            txt = p.stdout.read() if p.stdout else ""
            if out.exists():
                rec.merge(json.loads(out.read_text()))
                out.unlink()
            else:
                rec.inconclusive.append(f"shard {i}/{n} died (rc={rc}): {txt[-400:]}")
        running = still
        if running:
            time.sleep(0.2)


def main(argv=None) -> int:
    ap = argparse.ArgumentParser(prog="check")
    ap.add_argument("prop")
    ap.add_argument("--tier", default=os.environ.get("VERIF_TIER", "quick"), choices=["quick", "thorough"])
    ap.add_argument("--seed", type=int, default=int(os.environ.get("VERIF_SEED", "0")))
    ap.add_argument("--shard", default=None)
    ap.add_argument("--json-out", default=None)
    ap.add_argument("--replay", default=None)
    a = ap.parse_args(argv)

    env.bootstrap()
    prop = a.prop.upper()
    ctx = Ctx(prop=prop, tier=a.tier, seed=a.seed, replay=a.replay)
    if a.shard:
        i, n = a.shard.split("/")
        ctx.shard, ctx.nshards = int(i), int(n)
    mod = importlib.import_module(f"hv.checks.{prop.lower()}")
    rec = Recorder()
    t0 = time.time()
    env.assert_repo_is_tree()

    try:
        if a.replay:
            case = json.loads(Path(a.replay).read_text())
            mod.replay(ctx, rec, case.get("case", case))
        elif a.shard is None and ctx.tier == "thorough" and hasattr(mod, "shards") and mod.shards(ctx) > 1:
            ctx.nshards = mod.shards(ctx)
            run_sharded(ctx, mod, rec, ctx.nshards)
        else:
            mod.run(ctx, rec)
    except Exception:  # the harness itself broke: never a verdict about the property
        rec.inconclusive.append("harness exception: " + traceback.format_exc()[-1500:])

    if a.json_out:  # shard mode: hand the raw record to the parent
        Path(a.json_out).write_text(json.dumps(rec.dump(), default=str))
        return 0

    wall = time.time() - t0
    findings = load_findings()
    known_hit: Dict[str, int] = {}
    known_desc: Dict[str, str] = {}
    fresh: List[dict] = []
    for v in rec.violations:
        f = match_finding(prop, v, findings)
        if f is None:
            fresh.append(v)
        else:
            known_hit[f["id"]] = known_hit.get(f["id"], 0) + 1
            known_desc[f["id"]] = f.get("what", v["what"])

    if not a.replay:
        # thresholds -> inconclusive
        if rec.evaluations < getattr(mod, "MIN_EVALS", 1):
            rec.inconclusive.append(f"only {rec.evaluations} evaluations (< {getattr(mod, 'MIN_EVALS', 1)})")
        if len(rec.nontrivial) < getattr(mod, "MIN_NONTRIVIAL", 2):
            rec.inconclusive.append(f"only {len(rec.nontrivial)} distinct non-trivial cases")
        for c in getattr(mod, "REQUIRED_COUNTERS", []):
            if rec.counters.get(c, 0) <= 0:
                rec.inconclusive.append(f"deciding monitor '{c}' was never evaluated")

    if not a.replay:  # (a replay re-judges one witness; it is not a coverage statement and leaves the evidence file alone)
        try:
            write_evidence(ctx, mod, rec, wall, len(fresh), known_hit)
        except Exception:
            rec.inconclusive.append("evidence could not be written: " + traceback.format_exc()[-800:])

    print(f"[{prop}] tier={ctx.tier} seed={ctx.seed} evaluations={rec.evaluations} "
          f"distinct_nontrivial={len(rec.nontrivial)} wall={wall:.1f}s")
    mon = {k: v for k, v in rec.counters.items() if not k.startswith("viol:")}
    print(f"[{prop}] monitors: " + ", ".join(f"{k}={v}" for k, v in sorted(mon.items())))
    for fid in sorted(known_hit):
        print(f"KNOWN-FINDING: property={prop} {fid}: {known_desc[fid]} (observed {known_hit[fid]}x)")

    if fresh:
        rbase = Path(os.environ["HV_EVIDENCE_DIR"]) / "replays" if os.environ.get("HV_EVIDENCE_DIR") else env.VERIF / "replays"
        rdir = rbase / prop
        rdir.mkdir(parents=True, exist_ok=True)
        seen = set()
        first = None
        for v in fresh:
            if v["sig"] in seen:
                continue
            seen.add(v["sig"])
            path = rdir / f"{v['sig'].replace('/', '_').replace(' ', '_')[:80]}-{jhash(v['case'])}.json"
            path.write_text(json.dumps({"property": prop, "seed": ctx.seed, "tier": ctx.tier, **v}, indent=1,
                                       default=str))
            first = first or path
            print(f"VIOLATION property={prop} replay={path}")
            print(f"    mechanism={v['sig']}: {v['what']}")
        print(f"[{prop}] {len(fresh)} violation record(s), {len(seen)} distinct mechanism(s)")
        return EXIT_VIOLATION
    if rec.inconclusive:
        for r in rec.inconclusive[:10]:
            print(f"INCONCLUSIVE property={prop} reason={r}")
        return EXIT_INCONCLUSIVE
    print(f"[{prop}] HELD on everything observed")
    return EXIT_HELD


if __name__ == "__main__":
    sys.exit(main())
