"""Runtime attachment helpers: rebinding of module-level functions in every module that holds an alias."""

from __future__ import annotations

import sys
from typing import Any, Callable

from . import env


def rebind(orig: Any, new: Any, prefixes=("hdl21", "sky130_hdl21", "gf180_hdl21", "asap7_hdl21")) -> int:
    """Replace every module-global binding of `orig` (in modules whose name starts with one of `prefixes`)
    by `new`.  Returns the number of bindings replaced.  `from .x import f` aliases are caught this way;
    references captured elsewhere (default arguments, pydantic validators, registries) are not -- monitors
    count their evaluations and a zero count makes the check inconclusive."""
    if not env.guard_on():
        raise RuntimeError("monitors are guarded by HDL21_VERIF=1")
    n = 0
    for name, mod in list(sys.modules.items()):
        if mod is None or not any(name == p or name.startswith(p + ".") for p in prefixes):
            continue
        d = getattr(mod, "__dict__", None)
        if not d:
            continue
        for k, v in list(d.items()):
            if v is orig:
                d[k] = new
                n += 1
    return n
