"""
The connectivity oracle shared by C01/C04/C05/C07/C08/C10/C19: build a DesignSpec with the real library,
export it, read the package back with the independent reader R2 (and the SPICE text with R3) and compare
with the reference meaning R1.
"""

from __future__ import annotations

import io
import traceback
from typing import Any, Dict, List, Optional

from . import build, pkgread, refsem


class Outcome:
    def __init__(self):
        self.status = "ok"  # ok | invalid-spec | rejected | mismatch | unreadable
        self.diffs: List[str] = []
        self.exc: Optional[str] = None
        self.exc_type: Optional[str] = None
        self.pkg = None
        self.built = None
        self.ref: Optional[refsem.Flat] = None
        self.obs: Optional[refsem.Flat] = None
        self.stage = ""


def exc_sig(e: BaseException) -> str:
    """Exception type + the first line of its message without the hierarchy-path prefix of ElabPass.fail."""
    msg = str(e)
    if msg.startswith("Elaboration Error at hierarchical path"):
        lines = [l for l in msg.split("\n") if l.strip() and not l.startswith("  ") and "hierarchical path" not in l]
        msg = lines[-1] if lines else msg
    return f"{type(e).__name__}: {msg.strip().splitlines()[0][:160] if msg.strip() else ''}"


def judge(design: dict, uid: Optional[str] = None, spice: bool = False, reuse=None) -> Outcome:
    import hdl21 as h

    o = Outcome()
    try:
        o.ref = refsem.flatten(design)
    except refsem.Invalid as e:
        o.status, o.exc = "invalid-spec", str(e)
        return o
    try:
        o.stage = "build"
        o.built = build.build(design, uid=uid, reuse=reuse)
        o.stage = "to_proto"
        o.pkg = h.to_proto(o.built.top)
    except Exception as e:  # a valid design was rejected: counted, not a C01 violation
        o.status, o.exc, o.exc_type = "rejected", exc_sig(e), type(e).__name__
        o.tb = traceback.format_exc()[-1200:]
        return o
    try:
        o.stage = "read"
        o.obs = pkgread.flatten(o.pkg)
    except pkgread.ReadError as e:
        o.status, o.exc = "unreadable", str(e)
        o.diffs = [f"the package cannot be read as a circuit: {e}"]
        return o
    o.diffs = pkgread.compare(o.ref, o.obs)
    if o.diffs:
        o.status = "mismatch"
    if spice and o.status == "ok":
        from . import spiceread

        phys = any(v[0] == "hdl21.primitives" for v in o.obs.leaves.values())
        if not phys:
            try:
                dest = io.StringIO()
                h.netlist(o.pkg, dest, fmt="spice")
                sflat = spiceread.flatten(dest.getvalue(), o.pkg)
                d2 = spiceread.compare_nets(o.ref, sflat)
                if d2:
                    o.status, o.diffs = "mismatch", ["[spice text] " + x for x in d2]
            except Exception as e:
                o.status, o.exc = "netlist-failed", exc_sig(e)
                o.diffs = [f"spice netlisting of a returned package failed: {exc_sig(e)}"]
    return o
