"""Run the repository's own test-suite under chosen monitors (see hv/pytest_plugin.py) and merge the observations."""

import json
import os
import subprocess

from . import env


def run_suite(rec, monitors: str, keep_sig_prefixes, timeout=1200):
    scratch = env.VERIF / ".scratch"
    scratch.mkdir(exist_ok=True)
    out = scratch / f"suite.{os.getpid()}.{monitors.replace(',', '_')}.json"
    e = env.child_env({"HV_PLUGIN_MONITORS": monitors, "HV_PLUGIN_OUT": str(out)})
    e["PYTHONPATH"] = str(env.VERIF) + os.pathsep + e.get("PYTHONPATH", "")
    try:
        p = subprocess.run([env.PY, "-m", "pytest", "-q", "-p", "hv.pytest_plugin", "-p", "no:cacheprovider", "-x", "--timeout=900"],
                           cwd=str(env.REPO), env=e, capture_output=True, text=True, timeout=timeout)
    except subprocess.TimeoutExpired:
        rec.inconclusive.append("repository test-suite under monitors exceeded the watchdog")
        return
    if not out.exists():
        rec.inconclusive.append("repository test-suite under monitors produced no record: " + (p.stdout + p.stderr)[-300:])
        return
    d = json.loads(out.read_text())
    out.unlink()
    rec.extra["suite_under_monitors"] = {"pytest_exitstatus": d.get("pytest_exitstatus"), "tail": p.stdout.strip().splitlines()[-1:] if p.stdout else [],
                                         "monitor_evaluations": {k: v for k, v in d["counters"].items() if not k.startswith("viol:")}}
    d["violations"] = [v for v in d["violations"] if any(v["sig"].startswith(pfx) for pfx in keep_sig_prefixes)]
    d["counters"] = {("suite." + k if not k.startswith("viol:") else k): v for k, v in d["counters"].items()
                     if not k.startswith("viol:") or any(k[5:].startswith(pfx) for pfx in keep_sig_prefixes)}
    d["counters"].pop("suite.violations_recorded", None)
    d["inconclusive"] = []
    d["extra"] = {}
    rec.merge(d)
