"""
pytest plugin: run the repository's own test-suite with the monitors attached (record-and-continue).

    cd /repo && HDL21_VERIF=1 HV_PLUGIN_MONITORS=pkg,rt,pref,slice,param,name HV_PLUGIN_OUT=<file> \
        PYTHONPATH=/verif /venv/bin/python -m pytest -q -p hv.pytest_plugin -p no:cacheprovider

The ~150 hand-written designs of the suite become one more workload for the riding monitors.  The Recorder is
dumped to HV_PLUGIN_OUT at session end; the calling check merges it.
"""

import json
import os

_rec = None


def pytest_configure(config):
    global _rec
    from hv import env

    env.bootstrap()
    from hv.runner import Recorder

    _rec = Recorder()
    which = os.environ.get("HV_PLUGIN_MONITORS", "pkg").split(",")
    if "pkg" in which or "rt" in which:
        from hv.monitors import pkgmon

        pkgmon.attach(_rec, wellformed="pkg" in which, roundtrip="rt" in which)
        pkgmon.set_label("repository test-suite")
    if "pref" in which:
        from hv.monitors import pref

        pref.attach(_rec)
    if "slice" in which:
        from hv.monitors import slicemon

        slicemon.attach(_rec)
    if "param" in which:
        from hv.monitors import parammon

        parammon.attach(_rec)
    if "name" in which:
        from hv.monitors import passmon

        passmon.attach(_rec)
        passmon.set_label("repository test-suite")


def pytest_runtest_setup(item):
    if _rec is not None:
        try:
            from hv.monitors import pkgmon, passmon

            pkgmon.set_label(f"test-suite:{item.nodeid.split('::')[-1]}")
            passmon.set_label(f"test-suite:{item.nodeid.split('::')[-1]}")
        except Exception:
            pass


def pytest_sessionfinish(session, exitstatus):
    out = os.environ.get("HV_PLUGIN_OUT")
    if out and _rec is not None:
        d = _rec.dump()
        d["pytest_exitstatus"] = int(exitstatus)
        with open(out, "w") as f:
            json.dump(d, f, default=str)
