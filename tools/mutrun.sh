#!/bin/bash
# mutrun.sh <patch file> <property> [tier]  -- run a check against a scratch copy of /repo HEAD with a patch applied.
patch="$1"; prop="$2"; tier="${3:-quick}"
here="$(cd "$(dirname "$0")/.." && pwd)"
name="$(basename "$patch" .patch)"
wt="/tmp/scr/mut-$name-$prop-$$"
mkdir -p /tmp/scr; git -C /repo worktree prune
git -C /repo worktree add --detach "$wt" HEAD >/dev/null 2>&1 || { echo "$name worktree-failed"; exit 2; }
if ! git -C "$wt" apply "$patch" 2>/dev/null; then echo "$name $prop NOAPPLY"; git -C /repo worktree remove --force "$wt"; exit 2; fi
cd "$here"
HV_REPO="$wt" HV_EVIDENCE_DIR="/tmp/scr/ev-$name-$prop-$$" ./check "$prop" --tier "$tier" > "/tmp/scr/out-$name-$prop.log" 2>&1; rc=$?
v=$(grep -c "^VIOLATION" "/tmp/scr/out-$name-$prop.log")
echo "$name $prop rc=$rc violations=$v :: $(grep -m1 'mechanism=' /tmp/scr/out-$name-$prop.log | cut -c1-180)"
git -C /repo worktree remove --force "$wt" >/dev/null 2>&1; rm -rf "/tmp/scr/ev-$name-$prop-$$"
exit $rc
