#!/bin/bash
# hunt.sh <Cxx> [n ...]  -- run the round-4 hunters' finding scripts against /repo's working tree (cwd = /repo, read-only use)
p="$1"; shift
cd /repo
export PYTHONDONTWRITEBYTECODE=1 PYTHONPATH=/repo/pdks/Sky130:/repo/pdks/Gf180:/repo/pdks/Asap7
ns="$@"; [ -z "$ns" ] && ns=$(ls /verif/hunters/$p/finding_*.py | sed 's/.*finding_\(.*\)\.py/\1/' | sort -n)
for n in $ns; do
  timeout 300 /venv/bin/python /verif/hunters/$p/finding_$n.py > /tmp/scr/hunt-$p-$n.log 2>&1; echo "$p finding_$n exit=$?"
done
