#!/bin/bash
# seedrun.sh <seed-id> <property> [tier]   -- run a check against a scratch copy of /repo HEAD with a seeded change applied.
# Never touches /repo's working tree.  Prints the verdict line(s) and the exit code.
sid="$1"; prop="$2"; tier="${3:-quick}"
here="$(cd "$(dirname "$0")/.." && pwd)"
wt="/tmp/scr/run-$sid-$prop-$$"
mkdir -p /tmp/scr; git -C /repo worktree prune
git -C /repo worktree add --detach "$wt" HEAD >/dev/null 2>&1 || { echo "$sid worktree-failed"; exit 2; }
patch="$here/seeded/$sid/patch.diff"; [ -f "$here/seeded/$sid/patch_head.diff" ] && patch="$here/seeded/$sid/patch_head.diff"
if ! git -C "$wt" apply "$patch" 2>/dev/null; then
  if ! git -C "$wt" apply --3way "$patch" >/dev/null 2>&1 || [ -n "$(git -C "$wt" diff --name-only --diff-filter=U)" ] || grep -rlq '^<<<<<<< ' "$wt/hdl21" "$wt/pdks" --include=*.py 2>/dev/null; then
    echo "$sid $prop NOAPPLY"; git -C /repo worktree remove --force "$wt"; exit 2; fi
fi
cd "$here"
HV_REPO="$wt" HV_EVIDENCE_DIR="/tmp/scr/ev-$sid-$prop-$$" ./check "$prop" --tier "$tier" > "/tmp/scr/out-$sid-$prop.log" 2>&1; rc=$?
v=$(grep -c "^VIOLATION" "/tmp/scr/out-$sid-$prop.log"); k=$(grep -c "^KNOWN-FINDING" "/tmp/scr/out-$sid-$prop.log")
echo "$sid $prop rc=$rc violations=$v known=$k :: $(grep -m1 'mechanism=' /tmp/scr/out-$sid-$prop.log | cut -c1-200)"
git -C /repo worktree remove --force "$wt" >/dev/null 2>&1; rm -rf "/tmp/scr/ev-$sid-$prop-$$"
exit $rc
