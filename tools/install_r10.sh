#!/bin/bash
# install_r10.sh <Cxx>  -- confirm the mutation-round-10 change of one author (base 9dca2b1, /tmp/scr/seedout-<Cxx>) and install it under seeded/R10Cxxa
p="$1"; base=9dca2b1; here="$(cd "$(dirname "$0")/.." && pwd)"
for v in a; do
  src="/tmp/scr/seedout-$p"
  [ -f "$src/patch.diff" ] && [ -f "$src/demo.py" ] || { echo "R10$p$v missing"; continue; }
  res=$("$here/tools/confirm_seed.sh" "$src" "$base" "conf-R10$p$v")
  echo "$res"
  if echo "$res" | grep -q "apply=ok demo_without=0 demo_with=[1-9]" && echo "$res" | grep -q "tests=\[224 passed 4 skipped 7 xfailed 2 xpassed"; then
    d="$here/seeded/R10$p$v"; mkdir -p "$d"
    cp "$src/patch.diff" "$src/demo.py" "$d/"; [ -f "$src/notes.md" ] && cp "$src/notes.md" "$d/"
    files=$(grep '^diff --git' "$src/patch.diff" | sed 's/.* b\///' | sort -u | sed 's/.*/  "&"/' | paste -sd, -)
    cat > "$d/meta.json" <<EOM
{
 "id": "R10$p$v",
 "round": 10,
 "breaks_property": "$p",
 "author": "independent sub-agent given only the property text and a scratch worktree of the repaired tree (commit $base)",
 "files_changed": [
$files
 ],
 "needs_to_manifest": "see notes.md (written by the author)",
 "confirmed_by_me": {
  "base_commit": "$base",
  "procedure": "tools/confirm_seed.sh: scratch git worktree; demo.py exits 0 without the patch; patch applies; full test-suite with the patch = 224 passed, 4 skipped, 7 xfailed, 2 xpassed; demo.py exits non-zero with the patch; worktree removed",
  "result": "confirmed"
 },
 "detected_by": []
}
EOM
    echo "R10$p$v installed"
  else
    echo "R10$p$v NOT CONFIRMED"
  fi
done
