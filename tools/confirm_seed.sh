#!/bin/bash
# confirm_seed.sh <srcdir containing patch.diff demo.py> <base-commit> <label>
# Confirms in a scratch worktree: demo passes without the patch; with it the test-suite still passes and the demo fails.
src="$1"; base="$2"; label="$3"
wt="/tmp/scr/$label"
rm -rf "$wt"; git -C /repo worktree prune
git -C /repo worktree add --detach "$wt" "$base" >/dev/null 2>&1 || { echo "$label worktree-failed"; exit 0; }
cd "$wt"
export PYTHONPATH="$wt:$wt/pdks/Sky130:$wt/pdks/Gf180:$wt/pdks/Asap7"
export PYTHONDONTWRITEBYTECODE=1
timeout 600 /venv/bin/python "$src/demo.py" >/tmp/scr/$label.demo0.log 2>&1; d0=$?
if git apply --check "$src/patch.diff" 2>/dev/null; then
  git apply "$src/patch.diff"; ap=ok
  t=$(timeout 900 /venv/bin/python -m pytest -q -p no:cacheprovider 2>&1 | tail -1 | sed 's/ in .*//' | tr -d ',')
  timeout 600 /venv/bin/python "$src/demo.py" >/tmp/scr/$label.demo1.log 2>&1; d1=$?
else
  ap=NOAPPLY; t="-"; d1="-"
fi
echo "$label base=$base apply=$ap demo_without=$d0 demo_with=$d1 tests=[$t]"
cd /; git -C /repo worktree remove --force "$wt" >/dev/null 2>&1
