#!/usr/bin/env python3
"""Run every seeded change (and own mutant) against the checks listed for it; write seeded/MATRIX.md and update meta.json."""
import json, re, subprocess, sys, os, concurrent.futures as cf
from pathlib import Path
V = Path(__file__).resolve().parent.parent
EXTRA = {"R2C01a": ["C04"], "R2C01b": ["C05"], "R2C02b": ["C03"], "R2C03a": ["C01"], "R2C05a": ["C01"], "R2C06b": ["C05"], "R2C07a": ["C18"],
         "R2C18a": ["C07"], "R2C19a": ["C01", "C03"], "R2C12a": ["C01"], "R2C13a": ["C11"], "R2C10a": ["C01"], "C01b": ["C05"], "C06a": ["C05"], "C03b": ["C01"], "C12a": ["C09"], "C02b": ["C02"], "C06b": ["C02"], "C08b": ["C02"], "C11b": ["C03"],
         "R3C01b": ["C05"], "R3C06b": ["C05"], "R3C02a": ["C08"], "R3C16c": ["C16"], "R3C07c": ["C18"], "R3C18c": ["C18"], "R3C12b": ["C04"],
         "R4C09a": ["C08"], "R4C07b": ["C19"], "R4C06a": ["C02"], "R4C06c": ["C02"], "R4C04b": ["C03"], "R4C19a": ["C08"], "R4C12a": ["C09"], "R4C03a": ["C04"], "R4C02a": ["C04"], "R4C01b": ["C04"],
         "R5C10a": ["C18"], "R5C06a": ["C18"], "R5C01a": ["C03"], "R5C01b": ["C04"], "R5C13b": ["C12"], "R5C09b": ["C12"],
         "R6C08a": ["C18"], "R6C05a": ["C02"], "R6C12a": ["C09"], "R6C07b": ["C19"], "R6C11a": ["C06"],
         "R7C01a": ["C03"], "R7C04a": ["C02"], "R8C08a": ["C18"], "R10C01a": ["C03"]}
def run(sid, prop):
    import time
    for attempt in range(4):
        p = subprocess.run([str(V / "tools/seedrun.sh"), sid, prop], capture_output=True, text=True)
        line = (p.stdout.strip().splitlines() or ["?"])[-1]
        # (concurrent `git worktree add` calls contend for one lock: a run that never started is retried, not counted as a miss)
        if "worktree-failed" in line or line == "?":
            time.sleep(2 + attempt)
            continue
        break
    return sid, prop, p.returncode, line
jobs = []
for d in sorted((V / "seeded").iterdir()):
    if not d.is_dir(): continue
    if len(sys.argv) > 1 and not d.name.startswith(sys.argv[1]): continue
    sid = d.name
    prop0 = re.match(r"(?:R\d+)?(C\d\d)", sid).group(1)
    for prop in [prop0] + EXTRA.get(sid, []):
        jobs.append((sid, prop))
res = {}
with cf.ThreadPoolExecutor(max_workers=12) as ex:
    for sid, prop, rc, line in ex.map(lambda j: run(*j), jobs):
        res.setdefault(sid, {})[prop] = (rc, line)
out = ["# Seeded changes x checks (quick tier, /repo HEAD)", "", "| seed | check | result |", "|---|---|---|"]
for sid in sorted(res):
    det = []
    for prop, (rc, line) in sorted(res[sid].items()):
        r = "DETECTED" if rc == 1 else ("patch does not apply to HEAD" if "NOAPPLY" in line else ("RUN FAILED" if "worktree-failed" in line or line == "?" else "not detected"))
        if rc == 1: det.append(prop)
        mech = line.split("::", 1)[1].strip()[:110] if "::" in line else ""
        out.append(f"| {sid} | {prop} | {r} {('- ' + mech) if mech else ''} |")
    mp = V / "seeded" / sid / "meta.json"
    m = json.loads(mp.read_text())
    m["detected_by"] = det
    mp.write_text(json.dumps(m, indent=1))
(V / "seeded" / ("MATRIX.md" if len(sys.argv) < 2 else f"MATRIX-{sys.argv[1]}.md")).write_text("\n".join(out) + "\n")
print("\n".join(out))
