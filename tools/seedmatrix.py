#!/usr/bin/env python3
"""Run every seeded change (and own mutant) against the checks listed for it; write seeded/MATRIX.md and update meta.json."""
import json, subprocess, sys, os, concurrent.futures as cf
from pathlib import Path
V = Path(__file__).resolve().parent.parent
EXTRA = {"C01b": ["C05"], "C06a": ["C05"], "C03b": ["C01"], "C12a": ["C09"], "C02b": ["C02"], "C06b": ["C02"], "C08b": ["C02"], "C11b": ["C03"]}
def run(sid, prop):
    p = subprocess.run([str(V / "tools/seedrun.sh"), sid, prop], capture_output=True, text=True)
    line = (p.stdout.strip().splitlines() or ["?"])[-1]
    return sid, prop, p.returncode, line
jobs = []
for d in sorted((V / "seeded").iterdir()):
    if not d.is_dir(): continue
    sid = d.name
    for prop in [sid[:3]] + EXTRA.get(sid, []):
        jobs.append((sid, prop))
res = {}
with cf.ThreadPoolExecutor(max_workers=12) as ex:
    for sid, prop, rc, line in ex.map(lambda j: run(*j), jobs):
        res.setdefault(sid, {})[prop] = (rc, line)
out = ["# Seeded changes x checks (quick tier, /repo HEAD)", "", "| seed | check | result |", "|---|---|---|"]
for sid in sorted(res):
    det = []
    for prop, (rc, line) in sorted(res[sid].items()):
        r = "DETECTED" if rc == 1 else ("patch does not apply to HEAD" if "NOAPPLY" in line else "not detected")
        if rc == 1: det.append(prop)
        mech = line.split("::", 1)[1].strip()[:110] if "::" in line else ""
        out.append(f"| {sid} | {prop} | {r} {('- ' + mech) if mech else ''} |")
    mp = V / "seeded" / sid / "meta.json"
    m = json.loads(mp.read_text())
    m["detected_by"] = det
    mp.write_text(json.dumps(m, indent=1))
(V / "seeded" / "MATRIX.md").write_text("\n".join(out) + "\n")
print("\n".join(out))
