#!/bin/bash
# sweep.sh <tier> <seed> [parallel]  -- run all 19 checks at one tier / seed into a scratch evidence directory (the committed
# evidence/ is left alone); prints one line per check.  A false alarm on the unchanged tree shows up here first.
tier="$1"; seed="$2"; par="${3:-4}"
here="$(cd "$(dirname "$0")/.." && pwd)"; cd "$here"
out="/tmp/scr/sweep-$tier-$seed"; mkdir -p "$out"
run() { c="$1"; HV_EVIDENCE_DIR="$out/ev" timeout 7200 ./check "$c" --tier "$tier" --seed "$seed" > "$out/$c.log" 2>&1; rc=$?
        echo "$c tier=$tier seed=$seed rc=$rc violations=$(grep -c '^VIOLATION' "$out/$c.log") $(tail -1 "$out/$c.log" | cut -c1-70)"; }
export -f run; export tier seed out
printf '%s\n' C01 C02 C03 C04 C05 C06 C07 C08 C09 C10 C11 C12 C13 C14 C15 C16 C17 C18 C19 | xargs -P "$par" -I{} bash -c 'run {}'
