#!/bin/bash
# install_r9.sh <Cxx>  -- confirm the two mutation-round-9 changes of one author (base f1a0ef3) and install the confirmed ones under seeded/R6Cxx{a,b}
p="$1"; base=d3361ae; here="$(cd "$(dirname "$0")/.." && pwd)"
for v in a b; do
  src="/tmp/wt14/$p/_out/$v"
  [ -f "$src/patch.diff" ] && [ -f "$src/demo.py" ] || { echo "R9$p$v missing"; continue; }
  res=$("$here/tools/confirm_seed.sh" "$src" "$base" "conf-R9$p$v")
  echo "$res"
  if echo "$res" | grep -q "apply=ok demo_without=0 demo_with=[1-9]" && echo "$res" | grep -q "tests=\[224 passed 4 skipped 7 xfailed 2 xpassed"; then
    d="$here/seeded/R9$p$v"; mkdir -p "$d"
    cp "$src/patch.diff" "$src/demo.py" "$d/"; [ -f "$src/notes.md" ] && cp "$src/notes.md" "$d/"
    files=$(grep '^diff --git' "$src/patch.diff" | sed 's/.* b\///' | sort -u | sed 's/.*/  "&"/' | paste -sd, -)
    cat > "$d/meta.json" <<EOM
{
 "id": "R9$p$v",
 "round": 9,
 "breaks_property": "$p",
 "author": "independent sub-agent given only the property text and a scratch worktree of the repaired tree (commit $base)",
 "files_changed": [
$files
 ],
 "needs_to_manifest": "see notes.md (written by the author)",
 "confirmed_by_me": {
  "base_commit": "$base",
  "procedure": "tools/confirm_seed.sh: scratch git worktree; demo.py exits 0 without the patch; patch applies; full test-suite with the patch = 224 passed, 4 skipped, 7 xfailed, 2 xpassed; demo.py exits non-zero with the patch; worktree removed",
  "result": "confirmed"
 },
 "detected_by": []
}
EOM
    echo "R9$p$v installed"
  else
    echo "R9$p$v NOT CONFIRMED"
  fi
done
